(* Decode direction of the payload codec: proofs behind C01 and C11.

   1. from_bitarray_char      the cur/end loop of Payload.from_bitarray, characterised field by field
   2. (BitsLemmas.v)          int_read_unsigned / int_read_signed
   3. kind_sem                per layout kind: a model field with the matching signature decodes every slice to a value
                              related to spec_value by val_matches (text, bytes: list inductions; enumerations, rate of
                              turn: finite sweeps over the REGENERATED tables, lifted by forallb_forall)
   4. tables_match_spec       the 35 regenerated field tables against Spec/Layout.v, by vm_compute, one lemma per variant
   5. dispatch_matches_spec   MSG_CLASS + the regenerated decision trees against spec_variant
   6. C01_decode              the main theorem          7. C11_truncated

   All statements quantify over all bit lists; nothing enumerates payloads. *)
From Coq Require Import ZArith List Bool String Lia ZifyBool ZifyNat.
Require Import Prim.Exn Prim.Bits Prim.Dict Gen.GenEnums Model.FieldTypes Gen.GenTables Gen.GenDispatch Gen.GenConv
               Model.Codec Spec.Layout Spec.LayoutRel Proofs.BitsLemmas.
Import ListNotations.
Open Scope list_scope.
Open Scope Z_scope.
Ltac Zify.zify_post_hook ::= Z.to_euclidean_division_equations.

Local Notation length := List.length (only parsing).

Ltac split_andb :=
  repeat match goal with
         | H : _ && _ = true |- _ => apply andb_true_iff in H; destruct H
         end.

(* ------------------------------------------------------------------------------------------------ *)
(* sequencing in the exception monad                                                                  *)

Fixpoint mseq {A} (l : list (M A)) : M (list A) :=
  match l with
  | [] => Ok []
  | m :: r => bind m (fun a => bind (mseq r) (fun rs => Ok (a :: rs)))
  end.

Lemma mseq_cons_ok : forall {A} (m : M A) r a rs, m = Ok a -> mseq r = Ok rs -> mseq (m :: r) = Ok (a :: rs).
Proof. intros A m r a rs -> H. cbn [mseq bind]. rewrite H. reflexivity. Qed.

Lemma mseq_cons_inv : forall {A} (m : M A) r vs, mseq (m :: r) = Ok vs ->
  exists a rs, m = Ok a /\ mseq r = Ok rs /\ vs = a :: rs.
Proof.
  intros A m r vs H. cbn [mseq] in H. destruct m as [a|e]; [|discriminate]. cbn [bind] in H.
  destruct (mseq r) as [rs|e]; [|discriminate]. cbn [bind] in H. injection H as <-. eauto.
Qed.

Lemma mseq_length : forall {A} (l : list (M A)) vs, mseq l = Ok vs -> length vs = length l.
Proof.
  induction l as [|m r IH]; intros vs H.
  - injection H as <-. reflexivity.
  - apply mseq_cons_inv in H as (a & rs & _ & Hr & ->). cbn [List.length]. f_equal. auto.
Qed.

Lemma mseq_nth : forall {A} (l : list (M A)) vs i m, mseq l = Ok vs -> nth_error l i = Some m ->
  exists a, m = Ok a /\ nth_error vs i = Some a.
Proof.
  induction l as [|m0 r IH]; intros vs i m H Hn.
  - destruct i; discriminate.
  - apply mseq_cons_inv in H as (a & rs & Hm & Hr & ->). destruct i as [|i].
    + injection Hn as <-. eauto.
    + cbn [nth_error] in *. eauto.
Qed.

(* ------------------------------------------------------------------------------------------------ *)
(* 1. the loop of Payload.from_bitarray                                                               *)

(* the value the loop gives to a field that starts at bit [off] *)
Definition field_at (f : field) (b : bits) (off : nat) : M value :=
  if (length b <=? off)%nat then Ok VNone
  else decode_field f (slice b off (Nat.min (length b) (off + f_width f))).

Fixpoint field_vals (fs : list field) (b : bits) (off : nat) : list (M value) :=
  match fs with
  | [] => []
  | f :: r => field_at f b off :: field_vals r b (off + f_width f)
  end.

Lemma from_bitarray_loop_char : forall fs b off,
  from_bitarray_loop fs b (Nat.min (length b) off) (Nat.min (length b) off) = mseq (field_vals fs b off).
Proof.
  induction fs as [|f r IH]; intros b off; [reflexivity|].
  cbn [from_bitarray_loop field_vals mseq]. unfold field_at.
  destruct (Nat.leb_spec (length b) off) as [Hle|Hgt].
  - replace (length b <=? Nat.min (length b) off)%nat with true by (symmetry; apply Nat.leb_le; lia).
    replace (Nat.min (length b) off) with (Nat.min (length b) (off + f_width f)) by lia.
    rewrite IH. reflexivity.
  - replace (length b <=? Nat.min (length b) off)%nat with false by (symmetry; apply Nat.leb_gt; lia).
    replace (Nat.min (length b) off) with off by lia.
    rewrite IH. reflexivity.
Qed.

(* DESIGN 7/C01 from_bitarray_char: field i of the result is None if off_i >= |bits|, otherwise
   decode_field f_i (bits[off_i : min(|bits|, off_i + w_i)]), off_i = the sum of the preceding widths *)
Theorem from_bitarray_char : forall fs b, from_bitarray_loop fs b 0 0 = mseq (field_vals fs b 0).
Proof. intros. rewrite <- from_bitarray_loop_char, Nat.min_0_r. reflexivity. Qed.

Definition widths_before (fs : list field) (i : nat) : nat :=
  fold_right (fun f a => f_width f + a)%nat 0%nat (firstn i fs).

Lemma field_vals_nth : forall fs b off i f, nth_error fs i = Some f ->
  nth_error (field_vals fs b off) i = Some (field_at f b (off + widths_before fs i)).
Proof.
  induction fs as [|f0 r IH]; intros b off i f H; [destruct i; discriminate|].
  destruct i as [|i].
  - injection H as <-. unfold widths_before. cbn [firstn fold_right field_vals nth_error]. do 2 f_equal. lia.
  - cbn [nth_error field_vals] in *. rewrite (IH b _ i f H). unfold widths_before. cbn [firstn fold_right].
    do 2 f_equal. lia.
Qed.

Corollary from_bitarray_char_nth : forall fs b kws i f, from_bitarray_loop fs b 0 0 = Ok kws ->
  nth_error fs i = Some f ->
  let off := widths_before fs i in
  exists kw, nth_error kws i = Some kw /\
    if (length b <=? off)%nat then kw = VNone
    else decode_field f (slice b off (Nat.min (length b) (off + f_width f))) = Ok kw.
Proof.
  intros fs b kws i f H Hn off. rewrite from_bitarray_char in H.
  destruct (mseq_nth _ _ i _ H (field_vals_nth fs b 0 i f Hn)) as (kw & Hkw & Hnth).
  exists kw. split; [exact Hnth|]. unfold field_at in Hkw. cbn [Nat.add] in Hkw. fold off in Hkw.
  destruct (length b <=? off)%nat; [congruence|exact Hkw].
Qed.

(* field by field with the attrs-level converter of __init__ *)
Definition dec1 (f : field) (b : bits) (off : nat) : M value :=
  bind (field_at f b off) (fun kw => apply_opt_conv (f_attrs_conv f) kw).

Fixpoint dec_all (fs : list field) (b : bits) (off : nat) : list (M value) :=
  match fs with
  | [] => []
  | f :: r => dec1 f b off :: dec_all r b (off + f_width f)
  end.

Lemma dec_all_init : forall fs b off vals, mseq (dec_all fs b off) = Ok vals ->
  exists kws, mseq (field_vals fs b off) = Ok kws /\ init_attrs fs kws = Ok vals.
Proof.
  induction fs as [|f r IH]; intros b off vals H.
  - injection H as <-. exists []. split; reflexivity.
  - cbn [dec_all] in H. apply mseq_cons_inv in H as (a & rs & Ha & Hr & ->).
    destruct (IH _ _ _ Hr) as (kws & Hk & Hi). unfold dec1 in Ha.
    destruct (field_at f b off) as [kw|e] eqn:Ef; [|discriminate]. cbn [bind] in Ha.
    exists (kw :: kws). split.
    + cbn [field_vals]. apply mseq_cons_ok; assumption.
    + cbn [init_attrs bind]. rewrite Ha. cbn [bind]. rewrite Hi. reflexivity.
Qed.

Lemma from_bitarray_of_dec_all : forall c b vals, mseq (dec_all (fields_of c) b 0) = Ok vals ->
  from_bitarray c b = Ok vals.
Proof.
  intros c b vals H. apply dec_all_init in H as (kws & Hk & Hi). unfold from_bitarray.
  rewrite from_bitarray_char, Hk. cbn [bind]. exact Hi.
Qed.

(* ------------------------------------------------------------------------------------------------ *)
(* converters through [resolve]                                                                       *)

Lemma apply_resolve : forall c v, apply_opt_conv c v = apply_rconv (resolve c) v.
Proof.
  intros [[n|e|e]|] v; cbn [apply_opt_conv apply_conv resolve apply_rconv]; try reflexivity.
  destruct (assoc_s n conv_table); reflexivity.
Qed.

Definition raw_value (f : field) (bs : bits) : value :=
  match f_dtype f with
  | DInt | DBool | DFloat =>
    let shift := Z.of_nat (pad_len (length bs)) in
    let v := Z.shiftr (if f_signed f then from_bytes_s bs else from_bytes_u bs) shift in
    match f_dtype f with
    | DFloat => VFloat v 1
    | DBool => VBool (negb (v =? 0))
    | _ => VInt v
    end
  | DStr => VStr (decode_bin_as_ascii6 bs)
  | DBytes => VBytes (bits_to_bytes bs)
  end.

Lemma decode_field_raw : forall f bs, decode_field f bs = apply_rconv (resolve (f_to f)) (raw_value f bs).
Proof. intros. unfold decode_field. rewrite apply_resolve. reflexivity. Qed.

Definition int_of (f : field) (bs : bits) : Z := if f_signed f then sval_ bs else uval bs.

Lemma raw_value_int : forall f bs,
  raw_value f bs =
  match f_dtype f with
  | DInt => VInt (int_of f bs)
  | DBool => VBool (negb (int_of f bs =? 0))
  | DFloat => VFloat (int_of f bs) 1
  | DStr => VStr (decode_bin_as_ascii6 bs)
  | DBytes => VBytes (bits_to_bytes bs)
  end.
Proof.
  intros. unfold raw_value, int_of.
  destruct (f_dtype f); destruct (f_signed f); rewrite ?int_read_signed, ?int_read_unsigned; reflexivity.
Qed.

Lemma mkfloat_frac : forall n d, 0 < d -> exists n' d', mkfloat n d = VFloat n' d' /\ n' * d = n * Zpos d'.
Proof.
  intros n d Hd. unfold mkfloat.
  replace (d =? 0) with false by lia.
  destruct (n mod d =? 0) eqn:E.
  - exists (n / d), 1%positive. split; [reflexivity|]. lia.
  - exists n, (Z.to_pos d). split; [reflexivity|]. rewrite Z2Pos.id by lia. reflexivity.
Qed.

Lemma apply_div10 : forall z, apply_shape (ShDiv (mkDec 10 0)) (VFloat z 1) = Ok (mkfloat (z * 1 * 1) 10).
Proof. reflexivity. Qed.

Lemma apply_round_div_6 : forall k z, 0 < k ->
  apply_shape (ShRoundFloatDiv (mkDec k 0) 6) (VFloat z 1) = Ok (mkfloat (rhe (z * 1 * 1000000) (1 * k)) 1000000).
Proof.
  intros k z Hk. unfold apply_shape, as_frac, dec_num_den, dec_num, dec_exp.
  replace (k <=? 0) with false by lia. reflexivity.
Qed.

Lemma rhe_spec : forall a b, rhe a b = round_half_even a b.
Proof. reflexivity. Qed.

(* ------------------------------------------------------------------------------------------------ *)
(* finite sweeps over the regenerated enumeration tables and the rate-of-turn converter               *)

Lemma in_zrange : forall lo hi z, lo <= z <= hi -> In z (zrange lo hi).
Proof.
  intros lo hi z H. unfold zrange. apply in_map_iff. exists (Z.to_nat (z - lo)). split; [lia|].
  apply in_seq. lia.
Qed.

Lemma zmem_in : forall x l, zmem x l = true -> In x l.
Proof.
  intros x l H. unfold zmem in H. apply existsb_exists in H as (y & Hy & E). apply Z.eqb_eq in E. subst. exact Hy.
Qed.

Lemma zlist_eqb_eq : forall a b, zlist_eqb a b = true -> a = b.
Proof.
  unfold zlist_eqb. induction a as [|x a IH]; intros [|y b] H; try reflexivity; cbn in H; try discriminate.
  apply andb_true_iff in H as [Hl H]. cbn [combine forallb fst snd] in H. apply andb_true_iff in H as [Hxy H].
  apply Z.eqb_eq in Hxy. subst. f_equal. apply IH. rewrite Hl. exact H.
Qed.

Lemma val_matchesb_sound : forall v s, val_matchesb v s = true -> val_matches v s.
Proof.
  intros v s H. destruct s, v; cbn [val_matchesb] in H; try discriminate; cbn [val_matches].
  - apply Z.eqb_eq. exact H.
  - apply eqb_prop. exact H.
  - apply Z.eqb_eq. exact H.
  - apply zlist_eqb_eq. exact H.
  - apply zlist_eqb_eq. exact H.
  - split_andb. repeat split.
    + apply String.eqb_eq. assumption.
    + apply zmem_in. assumption.
    + intros ->. apply Z.eqb_eq. assumption.
  - apply Z.eqb_eq. exact H.
Qed.

Definition all_senums : list senum :=
  [SE_NavigationStatus; SE_ManeuverIndicator; SE_EpfdType; SE_ShipType; SE_NavAid; SE_StationType; SE_TransmitMode;
   SE_StationIntervals].

Lemma all_senums_complete : forall e, In e all_senums.
Proof. destruct e; cbn; repeat (first [left; reflexivity | right]). Qed.

Lemma all_enums_complete : forall e, In e all_enums.
Proof. destruct e; cbn; repeat (first [left; reflexivity | right]). Qed.

(* every code an enumeration field of at most 8 bits can carry is constructed into a member, the member with that very
   code whenever the standard defines the code *)
Definition enum_code_ok (e' : enum_id) (e : senum) (code : Z) : bool :=
  match enum_ctor e' code with
  | Ok m => zmem m (enum_members e') && (if existsb (Z.eqb code) (senum_defined e) then m =? code else true)
  | Raise _ => false
  end.

(* re-checked against the regenerated Gen/GenEnums.v on every run.  (The statement is spelled out rather than named by
   a definition so that the kernel never has to decide which side of a conversion to evaluate.) *)
Lemma enum_members_match_spec :
  forallb (fun e' => forallb (fun e => if String.eqb (enum_name e') (senum_name e)
                                       then forallb (enum_code_ok e' e) (zrange 0 255) else true)
                             all_senums) all_enums = true.
Proof. vm_compute. reflexivity. Qed.

Lemma enum_code_sem : forall e' e code, enum_name e' = senum_name e -> 0 <= code < 256 ->
  exists m, enum_ctor e' code = Ok m /\ In m (enum_members e') /\
            (existsb (Z.eqb code) (senum_defined e) = true -> m = code).
Proof.
  intros e' e code Hn Hc.
  pose proof (proj1 (forallb_forall _ _) enum_members_match_spec e' (all_enums_complete e')) as H1.
  cbv beta in H1.
  pose proof (proj1 (forallb_forall _ _) H1 e (all_senums_complete e)) as H2. cbv beta in H2. clear H1.
  apply String.eqb_eq in Hn. rewrite Hn in H2.
  pose proof (proj1 (forallb_forall _ _) H2 code (in_zrange 0 255 code ltac:(lia))) as H. clear H2.
  unfold enum_code_ok in H.
  destruct (enum_ctor e' code) as [m|]; [|discriminate]. exists m. split_andb. repeat split.
  - apply zmem_in. assumption.
  - intros Hd. rewrite Hd in *. apply Z.eqb_eq. assumption.
Qed.

(* the 256 rate-of-turn codes through the regenerated to_turn constants and the TurnRate enumeration *)
Definition turn_code_ok (code : Z) : bool :=
  match apply_shape (ShToTurn 127 128 (mkDec 4733 3)) (VFloat code 1) with
  | Ok v => val_matchesb v (spec_turn code)
  | Raise _ => false
  end.

Lemma turn_codes_match_spec : forallb turn_code_ok (zrange (-128) 127) = true.
Proof. vm_compute. reflexivity. Qed.

Lemma turn_code_sem : forall code, -128 <= code < 128 ->
  exists v, apply_shape (ShToTurn 127 128 (mkDec 4733 3)) (VFloat code 1) = Ok v /\ val_matches v (spec_turn code).
Proof.
  intros code Hc.
  pose proof (proj1 (forallb_forall _ _) turn_codes_match_spec code (in_zrange (-128) 127 code ltac:(lia))) as H.
  unfold turn_code_ok in H.
  destruct (apply_shape _ _) as [v|]; [|discriminate]. exists v. split; [reflexivity|].
  apply val_matchesb_sound. exact H.
Qed.

(* ------------------------------------------------------------------------------------------------ *)
(* six-bit text                                                                                        *)

Lemma lstrip_ltrim : forall s, lstrip_sp s = ltrim s.
Proof. induction s as [|c r IH]; [reflexivity|]. cbn [lstrip_sp ltrim]. rewrite IH. reflexivity. Qed.

Lemma strip_trim : forall s, strip_sp s = trim s.
Proof. intros. unfold strip_sp, trim. rewrite !lstrip_ltrim. reflexivity. Qed.

Lemma ascii6_char_six : forall c, length c = 6%nat -> ascii6_char c = sixbit_char (uval c).
Proof.
  intros c H. unfold ascii6_char, sixbit_char. pose proof (int_read_unsigned c) as E. rewrite H in E.
  change (Z.of_nat (pad_len 6)) with 2 in E. rewrite E. reflexivity.
Qed.

Lemma ascii6_char_zero : forall c, forallb negb c = true -> ascii6_char c = 64.
Proof.
  intros c H. unfold ascii6_char. rewrite from_bytes_u_uval, uval_zero_all_false by assumption. reflexivity.
Qed.

Lemma chunks_fuel_nil : forall {A} fuel n, @chunks_fuel A fuel n [] = [].
Proof. destruct fuel; reflexivity. Qed.

Lemma sixbit_char_at : forall c, 0 <= c < 64 -> (sixbit_char c =? 64) = (c =? 0).
Proof. intros c H. unfold sixbit_char. destruct (c <? 32) eqn:E; lia. Qed.

Definition tail_zero (bs : bits) : bool := forallb negb (skipn ((length bs / 6) * 6) bs).

Lemma text_loop_eq : forall fuel bs, (length bs <= fuel)%nat -> tail_zero bs = true ->
  ascii6_loop (chunks_fuel fuel 6 bs) = until_at (sixbit_codes bs fuel).
Proof.
  induction fuel as [|f IH]; intros bs Hl Hz.
  - destruct bs; [reflexivity|cbn in Hl; lia].
  - destruct bs as [|b0 [|b1 [|b2 [|b3 [|b4 [|b5 r]]]]]];
      try (cbn [chunks_fuel firstn skipn sixbit_codes until_at ascii6_loop];
           rewrite chunks_fuel_nil; rewrite ascii6_char_zero by exact Hz; reflexivity).
    + reflexivity.
    + cbn [chunks_fuel firstn skipn sixbit_codes until_at ascii6_loop].
      rewrite ascii6_char_six by reflexivity.
      pose proof (uval_bound [b0; b1; b2; b3; b4; b5]) as Hb. change (2 ^ Z.of_nat (length [b0; b1; b2; b3; b4; b5])) with 64 in Hb.
      rewrite sixbit_char_at by exact Hb.
      destruct (uval [b0; b1; b2; b3; b4; b5] =? 0); [reflexivity|]. f_equal. apply IH.
      * cbn [List.length] in Hl. lia.
      * unfold tail_zero in *. cbn [List.length] in Hz.
        replace (S (S (S (S (S (S (length r)))))) / 6 * 6)%nat with (6 + (length r / 6) * 6)%nat in Hz by lia.
        exact Hz.
Qed.

(* decode_bin_as_ascii6 = spec_text when the sub-character padding bits are zero *)
Theorem text_model_spec : forall bs, tail_zero bs = true -> decode_bin_as_ascii6 bs = spec_text bs.
Proof.
  intros bs H. unfold decode_bin_as_ascii6, spec_text, chunks. rewrite strip_trim, text_loop_eq by (lia || assumption).
  reflexivity.
Qed.

(* ------------------------------------------------------------------------------------------------ *)
(* 3. per layout kind                                                                                  *)

Definition pad_ok (k : kind) (bs : bits) : bool :=
  match k with KT => tail_zero bs | _ => true end.

Lemma dtype_eqb_eq : forall a b, dtype_eqb a b = true -> a = b.
Proof. destruct a, b; cbn; congruence. Qed.

Lemma dec_is_eq : forall c n e, dec_is c n e = true -> c = mkDec n e.
Proof.
  intros [cn ce] n e H. unfold dec_is in H. cbn [dec_num dec_exp] in H. split_andb.
  apply Z.eqb_eq in H. apply Nat.eqb_eq in H0. subst. reflexivity.
Qed.

Lemma is_none_eq : forall r, is_none r = true -> r = RNone.
Proof. destruct r; cbn; congruence. Qed.

Lemma is_div_eq : forall r n e, is_div r n e = true -> r = RShape (ShDiv (mkDec n e)).
Proof.
  intros r n e H. destruct r as [|sh| | |]; try discriminate. destruct sh; try discriminate.
  cbn [is_div] in H. apply dec_is_eq in H. subst. reflexivity.
Qed.

Lemma is_round_div_eq : forall r n e d, is_round_div r n e d = true -> r = RShape (ShRoundFloatDiv (mkDec n e) d).
Proof.
  intros r n e d H. destruct r as [|sh| | |]; try discriminate. destruct sh; try discriminate.
  cbn [is_round_div] in H. split_andb. apply dec_is_eq in H. apply Z.eqb_eq in H0. subst. reflexivity.
Qed.

Lemma is_to_turn_eq : forall r, is_to_turn r = true -> r = RShape (ShToTurn 127 128 (mkDec 4733 3)).
Proof.
  intros r H. destruct r as [|sh| | |]; try discriminate. destruct sh; try discriminate.
  cbn [is_to_turn] in H. split_andb. apply dec_is_eq in H0. apply Z.eqb_eq in H, H1. subst. reflexivity.
Qed.

Lemma pow2_le_256 : forall n : nat, (n <= 8)%nat -> 2 ^ Z.of_nat n <= 256.
Proof. intros. change 256 with (2 ^ 8). apply Z.pow_le_mono_r; lia. Qed.

Lemma sval_small : forall bs, (length bs <= 8)%nat -> -128 <= sval_ bs < 128.
Proof.
  intros bs H. destruct bs as [|x r]; [cbn; lia|].
  pose proof (sval_bound (x :: r) ltac:(discriminate)) as Hb.
  assert (2 ^ Z.of_nat (length (x :: r) - 1) <= 2 ^ 7) by (apply Z.pow_le_mono_r; lia).
  change (2 ^ 7) with 128 in *. lia.
Qed.

Ltac use_sig H :=
  unfold sig_ok in H; split_andb;
  repeat match goal with
         | H : dtype_eqb _ _ = true |- _ => apply dtype_eqb_eq in H
         | H : is_none _ = true |- _ => apply is_none_eq in H
         | H : is_div _ _ _ = true |- _ => apply is_div_eq in H
         | H : is_round_div _ _ _ _ = true |- _ => apply is_round_div_eq in H
         | H : is_to_turn _ = true |- _ => apply is_to_turn_eq in H
         | H : negb _ = true |- _ => apply negb_true_iff in H
         end.

Ltac start_kind f bs :=
  rewrite !apply_resolve, decode_field_raw, raw_value_int; unfold int_of;
  repeat match goal with
         | H : f_dtype f = _ |- _ => rewrite H
         | H : f_signed f = _ |- _ => rewrite H
         | H : resolve _ = _ |- _ => rewrite H
         end;
  cbn [apply_rconv].

(* a model field whose signature is the one its layout kind demands decodes every slice that is not longer than the
   field -- without an exception, and to the value the layout assigns to the slice *)
Theorem kind_sem : forall k f bs, sig_ok k f = true -> (length bs <= f_width f)%nat ->
  exists kw v, decode_field f bs = Ok kw /\ apply_opt_conv (f_attrs_conv f) kw = Ok v /\
               (pad_ok k bs = true -> val_matches v (spec_value k bs)).
Proof.
  intros k f bs Hs Hl. destruct k.
  - (* KU *) use_sig Hs. do 2 eexists. start_kind f bs. repeat split.
  - (* KB *) use_sig Hs. do 2 eexists. start_kind f bs. repeat split.
  - (* KU10 *) use_sig Hs. destruct (mkfloat_frac (uval bs * 1 * 1) 10 ltac:(lia)) as (n' & d' & E & Hf).
    do 2 eexists. start_kind f bs. rewrite apply_div10, E. repeat split. cbn [val_matches spec_value]. lia.
  - (* KI10 *) use_sig Hs. destruct (mkfloat_frac (sval_ bs * 1 * 1) 10 ltac:(lia)) as (n' & d' & E & Hf).
    do 2 eexists. start_kind f bs. rewrite apply_div10, E. repeat split. cbn [val_matches spec_value]. lia.
  - (* KF1 *) use_sig Hs. do 2 eexists. start_kind f bs. repeat split.
  - (* KLL *) use_sig Hs.
    destruct (mkfloat_frac (rhe (sval_ bs * 1 * 1000000) (1 * 600000)) 1000000 ltac:(lia)) as (n' & d' & E & Hf).
    do 2 eexists. start_kind f bs. rewrite apply_round_div_6, E by lia. repeat split.
    intros _. cbn [val_matches spec_value]. rewrite <- rhe_spec. rewrite Z.mul_1_r in Hf. exact Hf.
  - (* KLL600 *) use_sig Hs.
    destruct (mkfloat_frac (rhe (sval_ bs * 1 * 1000000) (1 * 600)) 1000000 ltac:(lia)) as (n' & d' & E & Hf).
    do 2 eexists. start_kind f bs. rewrite apply_round_div_6, E by lia. repeat split.
    intros _. cbn [val_matches spec_value]. rewrite <- rhe_spec. rewrite Z.mul_1_r in Hf. exact Hf.
  - (* KROT *) use_sig Hs. apply Nat.eqb_eq in H0.
    destruct (turn_code_sem (sval_ bs) (sval_small bs ltac:(lia))) as (v & E & Hv).
    do 2 eexists. start_kind f bs. rewrite E. repeat split. intros _. exact Hv.
  - (* KT *) use_sig Hs. do 2 eexists. start_kind f bs. repeat split.
    cbn [pad_ok val_matches spec_value]. intros Hp. apply text_model_spec. exact Hp.
  - (* KD *) use_sig Hs. do 2 eexists. start_kind f bs. repeat split.
    intros _. cbn [val_matches spec_value]. apply bytes_model_spec.
  - (* KX *) use_sig Hs. do 2 eexists. start_kind f bs. repeat split.
    intros _. cbn [val_matches spec_value]. apply bytes_model_spec.
  - (* KE *) use_sig Hs. apply Nat.leb_le in H1.
    destruct (enum_conv (resolve (f_to f)) (resolve (f_attrs_conv f))) as [e'|] eqn:Ec; [|discriminate].
    apply String.eqb_eq in H0.
    pose proof (uval_bound bs) as Hb.
    assert (2 ^ Z.of_nat (length bs) <= 256) by (apply pow2_le_256; lia).
    destruct (enum_code_sem e' e (uval bs) H0 ltac:(lia)) as (m & Em & Hin & Hdef).
    unfold enum_conv in Ec.
    destruct (resolve (f_to f)) eqn:Eto; destruct (resolve (f_attrs_conv f)) eqn:Eat; try discriminate;
      injection Ec as ->;
      (exists (match resolve (f_to f) with RNone => VInt (uval bs) | _ => VEnum e' m end), (VEnum e' m));
      start_kind f bs; rewrite ?Eto; cbn [enum_of_value apply_rconv]; rewrite ?Em; cbn [bind];
      (split; [reflexivity|]); (split; [reflexivity|]); intros _;
      cbn [val_matches spec_value]; auto.
Qed.

(* ------------------------------------------------------------------------------------------------ *)
(* 4. the regenerated field tables against the layout tables                                          *)

Lemma field_errors_cons : forall f fr s sr off, field_errors (f :: fr) (s :: sr) off = [] ->
  f_name f = s_name s /\ f_width f = s_width s /\ s_off s = off /\ (0 < f_width f)%nat /\
  sig_ok (s_kind s) f = true /\ field_errors fr sr (off + f_width f) = [].
Proof.
  intros f fr s sr off H. cbn [field_errors] in H.
  destruct (String.eqb (f_name f) (s_name s)) eqn:E1; [|discriminate].
  destruct (Nat.eqb (f_width f) (s_width s)) eqn:E2; [|discriminate].
  destruct (Nat.eqb (s_off s) off) eqn:E3; [|discriminate].
  destruct (Nat.ltb 0 (f_width f)) eqn:E4; [|discriminate].
  destruct (sig_ok (s_kind s) f) eqn:E5; [|discriminate].
  cbn [List.app] in H.
  apply String.eqb_eq in E1. apply Nat.eqb_eq in E2, E3. apply Nat.ltb_lt in E4. auto 10.
Qed.

Lemma field_errors_length : forall fs sfs off, field_errors fs sfs off = [] -> length fs = length sfs.
Proof.
  induction fs as [|f fr IH]; intros [|s sr] off H; try reflexivity; try discriminate.
  apply field_errors_cons in H as (_ & _ & _ & _ & _ & H). cbn [List.length]. f_equal. eauto.
Qed.

Lemma field_errors_names : forall fs sfs off, field_errors fs sfs off = [] -> map f_name fs = map s_name sfs.
Proof.
  induction fs as [|f fr IH]; intros [|s sr] off H; try reflexivity; try discriminate.
  apply field_errors_cons in H as (Hn & _ & _ & _ & _ & H). cbn [map]. f_equal; eauto.
Qed.

Lemma field_errors_nth : forall fs sfs off i s, field_errors fs sfs off = [] -> nth_error sfs i = Some s ->
  exists f, nth_error fs i = Some f /\ f_width f = s_width s /\ (0 < f_width f)%nat /\ sig_ok (s_kind s) f = true /\
            forall b, nth_error (dec_all fs b off) i = Some (dec1 f b (s_off s)).
Proof.
  induction fs as [|f fr IH]; intros [|s0 sr] off i s H Hn; try discriminate; try (destruct i; discriminate).
  apply field_errors_cons in H as (_ & Hw & Ho & Hp & Hs & H). destruct i as [|i].
  - injection Hn as <-. exists f. subst off. repeat split; auto.
  - cbn [nth_error] in Hn. destruct (IH _ _ _ _ H Hn) as (f' & Hf' & ? & ? & ? & Hd).
    exists f'. repeat split; auto.
Qed.

Lemma layout_ok_inv : forall c v, layout_ok c v = true ->
  class_name c = variant_class v /\ total_width (spec_layout v) = nominal v /\
  field_errors (fields_of c) (spec_layout v) 0 = [].
Proof.
  intros c v H. unfold layout_ok, layout_errors in H.
  destruct (String.eqb (class_name c) (variant_class v)) eqn:E1; [|discriminate].
  destruct (Nat.eqb (total_width (spec_layout v)) (nominal v)) eqn:E2; [|discriminate].
  cbn [List.app] in H. apply String.eqb_eq in E1. apply Nat.eqb_eq in E2.
  destruct (field_errors (fields_of c) (spec_layout v) 0); [auto|discriminate].
Qed.

(* One lemma per layout variant, so that a changed width / sign flag / converter / field order in pyais/messages.py is
   reported under the name of the variant, with the complaint of the checker in the error message
   (e.g. Unable to unify "[]" with "["MessageType17.lon: signature (type, sign or converter)"]"). *)
Ltac table_check := vm_compute; reflexivity.
Lemma tables_match_spec_V1 : layout_errors (cls_of V1) V1 = []. Proof. table_check. Qed.
Lemma tables_match_spec_V2 : layout_errors (cls_of V2) V2 = []. Proof. table_check. Qed.
Lemma tables_match_spec_V3 : layout_errors (cls_of V3) V3 = []. Proof. table_check. Qed.
Lemma tables_match_spec_V4 : layout_errors (cls_of V4) V4 = []. Proof. table_check. Qed.
Lemma tables_match_spec_V5 : layout_errors (cls_of V5) V5 = []. Proof. table_check. Qed.
Lemma tables_match_spec_V6 : layout_errors (cls_of V6) V6 = []. Proof. table_check. Qed.
Lemma tables_match_spec_V7 : layout_errors (cls_of V7) V7 = []. Proof. table_check. Qed.
Lemma tables_match_spec_V8 : layout_errors (cls_of V8) V8 = []. Proof. table_check. Qed.
Lemma tables_match_spec_V9 : layout_errors (cls_of V9) V9 = []. Proof. table_check. Qed.
Lemma tables_match_spec_V10 : layout_errors (cls_of V10) V10 = []. Proof. table_check. Qed.
Lemma tables_match_spec_V11 : layout_errors (cls_of V11) V11 = []. Proof. table_check. Qed.
Lemma tables_match_spec_V12 : layout_errors (cls_of V12) V12 = []. Proof. table_check. Qed.
Lemma tables_match_spec_V13 : layout_errors (cls_of V13) V13 = []. Proof. table_check. Qed.
Lemma tables_match_spec_V14 : layout_errors (cls_of V14) V14 = []. Proof. table_check. Qed.
Lemma tables_match_spec_V15 : layout_errors (cls_of V15) V15 = []. Proof. table_check. Qed.
Lemma tables_match_spec_V16 : layout_errors (cls_of V16) V16 = []. Proof. table_check. Qed.
Lemma tables_match_spec_V17 : layout_errors (cls_of V17) V17 = []. Proof. table_check. Qed.
Lemma tables_match_spec_V18 : layout_errors (cls_of V18) V18 = []. Proof. table_check. Qed.
Lemma tables_match_spec_V19 : layout_errors (cls_of V19) V19 = []. Proof. table_check. Qed.
Lemma tables_match_spec_V20 : layout_errors (cls_of V20) V20 = []. Proof. table_check. Qed.
Lemma tables_match_spec_V21 : layout_errors (cls_of V21) V21 = []. Proof. table_check. Qed.
Lemma tables_match_spec_V22Addressed : layout_errors (cls_of V22Addressed) V22Addressed = []. Proof. table_check. Qed.
Lemma tables_match_spec_V22Broadcast : layout_errors (cls_of V22Broadcast) V22Broadcast = []. Proof. table_check. Qed.
Lemma tables_match_spec_V23 : layout_errors (cls_of V23) V23 = []. Proof. table_check. Qed.
Lemma tables_match_spec_V24A : layout_errors (cls_of V24A) V24A = []. Proof. table_check. Qed.
Lemma tables_match_spec_V24B : layout_errors (cls_of V24B) V24B = []. Proof. table_check. Qed.
Lemma tables_match_spec_V25AddressedStructured :
  layout_errors (cls_of V25AddressedStructured) V25AddressedStructured = []. Proof. table_check. Qed.
Lemma tables_match_spec_V25BroadcastStructured :
  layout_errors (cls_of V25BroadcastStructured) V25BroadcastStructured = []. Proof. table_check. Qed.
Lemma tables_match_spec_V25AddressedUnstructured :
  layout_errors (cls_of V25AddressedUnstructured) V25AddressedUnstructured = []. Proof. table_check. Qed.
Lemma tables_match_spec_V25BroadcastUnstructured :
  layout_errors (cls_of V25BroadcastUnstructured) V25BroadcastUnstructured = []. Proof. table_check. Qed.
Lemma tables_match_spec_V26AddressedStructured :
  layout_errors (cls_of V26AddressedStructured) V26AddressedStructured = []. Proof. table_check. Qed.
Lemma tables_match_spec_V26BroadcastStructured :
  layout_errors (cls_of V26BroadcastStructured) V26BroadcastStructured = []. Proof. table_check. Qed.
Lemma tables_match_spec_V26AddressedUnstructured :
  layout_errors (cls_of V26AddressedUnstructured) V26AddressedUnstructured = []. Proof. table_check. Qed.
Lemma tables_match_spec_V26BroadcastUnstructured :
  layout_errors (cls_of V26BroadcastUnstructured) V26BroadcastUnstructured = []. Proof. table_check. Qed.
Lemma tables_match_spec_V27 : layout_errors (cls_of V27) V27 = []. Proof. table_check. Qed.

(* DESIGN 7/C01 tables_match_spec: for all 35 variants the regenerated field table has the names, widths, contiguous
   offsets and signatures the layout demands, and the widths sum to the nominal length *)
Theorem tables_match_spec : forall v, layout_ok (cls_of v) v = true.
Proof.
  intros v. unfold layout_ok.
  destruct v;
    first [ rewrite tables_match_spec_V1 | rewrite tables_match_spec_V2 | rewrite tables_match_spec_V3
          | rewrite tables_match_spec_V4 | rewrite tables_match_spec_V5 | rewrite tables_match_spec_V6
          | rewrite tables_match_spec_V7 | rewrite tables_match_spec_V8 | rewrite tables_match_spec_V9
          | rewrite tables_match_spec_V10 | rewrite tables_match_spec_V11 | rewrite tables_match_spec_V12
          | rewrite tables_match_spec_V13 | rewrite tables_match_spec_V14 | rewrite tables_match_spec_V15
          | rewrite tables_match_spec_V16 | rewrite tables_match_spec_V17 | rewrite tables_match_spec_V18
          | rewrite tables_match_spec_V19 | rewrite tables_match_spec_V20 | rewrite tables_match_spec_V21
          | rewrite tables_match_spec_V22Addressed | rewrite tables_match_spec_V22Broadcast
          | rewrite tables_match_spec_V23 | rewrite tables_match_spec_V24A | rewrite tables_match_spec_V24B
          | rewrite tables_match_spec_V25AddressedStructured | rewrite tables_match_spec_V25BroadcastStructured
          | rewrite tables_match_spec_V25AddressedUnstructured | rewrite tables_match_spec_V25BroadcastUnstructured
          | rewrite tables_match_spec_V26AddressedStructured | rewrite tables_match_spec_V26BroadcastStructured
          | rewrite tables_match_spec_V26AddressedUnstructured | rewrite tables_match_spec_V26BroadcastUnstructured
          | rewrite tables_match_spec_V27 ]; reflexivity.
Qed.

(* ------------------------------------------------------------------------------------------------ *)
(* 5. variant dispatch                                                                                 *)

Lemma kb_get_sound : forall b kb i x, Forall (fun p => bit_at b (fst p) = snd p) kb -> kb_get kb i = Some x ->
  bit_at b i = x.
Proof.
  induction kb as [|[j y] r IH]; intros i x HF H; [discriminate|].
  inversion HF as [|? ? Hj Hr]; subst. cbn [kb_get] in H. destruct (Nat.eqb i j) eqn:E.
  - apply Nat.eqb_eq in E. injection H as <-. subst. exact Hj.
  - eauto.
Qed.

Lemma kb_get_lt : forall kb d i x, forallb (fun p => Nat.ltb (fst p) d) kb = true -> kb_get kb i = Some x -> (i < d)%nat.
Proof.
  induction kb as [|[j y] r IH]; intros d i x HF H; [discriminate|].
  cbn [forallb fst] in HF. apply andb_true_iff in HF as [Hj Hr]. cbn [kb_get] in H. destruct (Nat.eqb i j) eqn:E.
  - apply Nat.eqb_eq in E. apply Nat.ltb_lt in Hj. lia.
  - eauto.
Qed.

Lemma kb_range_sound : forall b kb d w lo l,
  Forall (fun p => bit_at b (fst p) = snd p) kb -> forallb (fun p => Nat.ltb (fst p) d) kb = true ->
  kb_range kb lo w = Some l ->
  l = map (fun i => nth i b false) (seq lo w) /\ ((0 < w)%nat -> (lo + w <= d)%nat).
Proof.
  induction w as [|w IH]; intros lo l HF Hd H.
  - injection H as <-. split; [reflexivity|lia].
  - cbn [kb_range] in H. destruct (kb_get kb lo) as [x|] eqn:Ex; [|discriminate].
    destruct (kb_range kb (S lo) w) as [r|] eqn:Er; [|discriminate]. injection H as <-.
    destruct (IH _ _ HF Hd Er) as [-> Hb]. pose proof (kb_get_lt _ _ _ _ Hd Ex).
    split.
    + cbn [seq map]. f_equal. symmetry. exact (kb_get_sound _ _ _ _ HF Ex).
    + intros _. destruct w; lia.
Qed.

Lemma range_val_sound : forall b kb d lo hi z,
  Forall (fun p => bit_at b (fst p) = snd p) kb -> forallb (fun p => Nat.ltb (fst p) d) kb = true ->
  (d <= length b)%nat -> range_val kb lo hi = Some z -> get_int b lo hi false = z.
Proof.
  intros b kb d lo hi z HF Hd Hlen H. unfold range_val in H.
  destruct (Nat.ltb lo hi) eqn:E; [|discriminate]. apply Nat.ltb_lt in E.
  destruct (kb_range kb lo (hi - lo)) as [l|] eqn:Er; [|discriminate]. injection H as <-.
  destruct (kb_range_sound _ _ _ _ _ _ HF Hd Er) as [-> Hb].
  rewrite get_int_uval by lia. rewrite sub_nth by lia. reflexivity.
Qed.

Lemma tree_sel_sound : forall b kb d t r,
  Forall (fun p => bit_at b (fst p) = snd p) kb -> forallb (fun p => Nat.ltb (fst p) d) kb = true ->
  (d <= length b)%nat -> tree_sel t kb = Some r -> run_dtree t b = r.
Proof.
  intros b kb d t r HF Hd Hlen. revert r.
  induction t as [c| |lo hi t1 IH1 t2 IH2|lo hi k t1 IH1 t2 IH2]; intros r H; cbn [tree_sel run_dtree] in *.
  - congruence.
  - congruence.
  - destruct (range_val kb lo hi) as [z|] eqn:Ez; [|discriminate].
    rewrite (range_val_sound _ _ _ _ _ _ HF Hd Hlen Ez). destruct (z =? 0); auto.
  - destruct (range_val kb lo hi) as [z|] eqn:Ez; [|discriminate].
    rewrite (range_val_sound _ _ _ _ _ _ HF Hd Hlen Ez). destruct (z =? k); auto.
Qed.

(* re-checked against the regenerated MSG_CLASS table and decision trees on every run, one lemma per variant *)
Ltac dispatch_check := vm_compute; reflexivity.
Lemma dispatch_table_V1 : dispatch_sel V1 = Some (cls_of V1). Proof. dispatch_check. Qed.
Lemma dispatch_table_V2 : dispatch_sel V2 = Some (cls_of V2). Proof. dispatch_check. Qed.
Lemma dispatch_table_V3 : dispatch_sel V3 = Some (cls_of V3). Proof. dispatch_check. Qed.
Lemma dispatch_table_V4 : dispatch_sel V4 = Some (cls_of V4). Proof. dispatch_check. Qed.
Lemma dispatch_table_V5 : dispatch_sel V5 = Some (cls_of V5). Proof. dispatch_check. Qed.
Lemma dispatch_table_V6 : dispatch_sel V6 = Some (cls_of V6). Proof. dispatch_check. Qed.
Lemma dispatch_table_V7 : dispatch_sel V7 = Some (cls_of V7). Proof. dispatch_check. Qed.
Lemma dispatch_table_V8 : dispatch_sel V8 = Some (cls_of V8). Proof. dispatch_check. Qed.
Lemma dispatch_table_V9 : dispatch_sel V9 = Some (cls_of V9). Proof. dispatch_check. Qed.
Lemma dispatch_table_V10 : dispatch_sel V10 = Some (cls_of V10). Proof. dispatch_check. Qed.
Lemma dispatch_table_V11 : dispatch_sel V11 = Some (cls_of V11). Proof. dispatch_check. Qed.
Lemma dispatch_table_V12 : dispatch_sel V12 = Some (cls_of V12). Proof. dispatch_check. Qed.
Lemma dispatch_table_V13 : dispatch_sel V13 = Some (cls_of V13). Proof. dispatch_check. Qed.
Lemma dispatch_table_V14 : dispatch_sel V14 = Some (cls_of V14). Proof. dispatch_check. Qed.
Lemma dispatch_table_V15 : dispatch_sel V15 = Some (cls_of V15). Proof. dispatch_check. Qed.
Lemma dispatch_table_V16 : dispatch_sel V16 = Some (cls_of V16). Proof. dispatch_check. Qed.
Lemma dispatch_table_V17 : dispatch_sel V17 = Some (cls_of V17). Proof. dispatch_check. Qed.
Lemma dispatch_table_V18 : dispatch_sel V18 = Some (cls_of V18). Proof. dispatch_check. Qed.
Lemma dispatch_table_V19 : dispatch_sel V19 = Some (cls_of V19). Proof. dispatch_check. Qed.
Lemma dispatch_table_V20 : dispatch_sel V20 = Some (cls_of V20). Proof. dispatch_check. Qed.
Lemma dispatch_table_V21 : dispatch_sel V21 = Some (cls_of V21). Proof. dispatch_check. Qed.
Lemma dispatch_table_V22Addressed : dispatch_sel V22Addressed = Some (cls_of V22Addressed). Proof. dispatch_check. Qed.
Lemma dispatch_table_V22Broadcast : dispatch_sel V22Broadcast = Some (cls_of V22Broadcast). Proof. dispatch_check. Qed.
Lemma dispatch_table_V23 : dispatch_sel V23 = Some (cls_of V23). Proof. dispatch_check. Qed.
Lemma dispatch_table_V24A : dispatch_sel V24A = Some (cls_of V24A). Proof. dispatch_check. Qed.
Lemma dispatch_table_V24B : dispatch_sel V24B = Some (cls_of V24B). Proof. dispatch_check. Qed.
Lemma dispatch_table_V25AddressedStructured :
  dispatch_sel V25AddressedStructured = Some (cls_of V25AddressedStructured). Proof. dispatch_check. Qed.
Lemma dispatch_table_V25BroadcastStructured :
  dispatch_sel V25BroadcastStructured = Some (cls_of V25BroadcastStructured). Proof. dispatch_check. Qed.
Lemma dispatch_table_V25AddressedUnstructured :
  dispatch_sel V25AddressedUnstructured = Some (cls_of V25AddressedUnstructured). Proof. dispatch_check. Qed.
Lemma dispatch_table_V25BroadcastUnstructured :
  dispatch_sel V25BroadcastUnstructured = Some (cls_of V25BroadcastUnstructured). Proof. dispatch_check. Qed.
Lemma dispatch_table_V26AddressedStructured :
  dispatch_sel V26AddressedStructured = Some (cls_of V26AddressedStructured). Proof. dispatch_check. Qed.
Lemma dispatch_table_V26BroadcastStructured :
  dispatch_sel V26BroadcastStructured = Some (cls_of V26BroadcastStructured). Proof. dispatch_check. Qed.
Lemma dispatch_table_V26AddressedUnstructured :
  dispatch_sel V26AddressedUnstructured = Some (cls_of V26AddressedUnstructured). Proof. dispatch_check. Qed.
Lemma dispatch_table_V26BroadcastUnstructured :
  dispatch_sel V26BroadcastUnstructured = Some (cls_of V26BroadcastUnstructured). Proof. dispatch_check. Qed.
Lemma dispatch_table_V27 : dispatch_sel V27 = Some (cls_of V27). Proof. dispatch_check. Qed.

Lemma dispatch_tables_match_spec : forall v, dispatch_sel v = Some (cls_of v).
Proof.
  destruct v;
    first [ exact dispatch_table_V1 | exact dispatch_table_V2 | exact dispatch_table_V3 | exact dispatch_table_V4
          | exact dispatch_table_V5 | exact dispatch_table_V6 | exact dispatch_table_V7 | exact dispatch_table_V8
          | exact dispatch_table_V9 | exact dispatch_table_V10 | exact dispatch_table_V11 | exact dispatch_table_V12
          | exact dispatch_table_V13 | exact dispatch_table_V14 | exact dispatch_table_V15 | exact dispatch_table_V16
          | exact dispatch_table_V17 | exact dispatch_table_V18 | exact dispatch_table_V19 | exact dispatch_table_V20
          | exact dispatch_table_V21 | exact dispatch_table_V22Addressed | exact dispatch_table_V22Broadcast
          | exact dispatch_table_V23 | exact dispatch_table_V24A | exact dispatch_table_V24B
          | exact dispatch_table_V25AddressedStructured | exact dispatch_table_V25BroadcastStructured
          | exact dispatch_table_V25AddressedUnstructured | exact dispatch_table_V25BroadcastUnstructured
          | exact dispatch_table_V26AddressedStructured | exact dispatch_table_V26BroadcastStructured
          | exact dispatch_table_V26AddressedUnstructured | exact dispatch_table_V26BroadcastUnstructured
          | exact dispatch_table_V27 ].
Qed.

(* what spec_variant says about the bits, in the form the checker uses *)
Lemma two_bits : forall b, (40 <= length b)%nat ->
  uval (sub b 38 2) = 2 * b2z (bit_at b 38) + b2z (bit_at b 39).
Proof.
  intros b H. rewrite sub_nth by lia. cbn [seq map]. unfold bit_at.
  destruct (nth 38 b false), (nth 39 b false); reflexivity.
Qed.

Lemma spec_variant_selects : forall b v, spec_variant b = Some v -> (disc_end v <= length b)%nat -> selects b v.
Proof.
  intros b v H Hlen. unfold selects. unfold spec_variant in H.
  set (t := uval (sub b 0 6)) in *.
  repeat match type of H with
         | (if ?c then _ else _) = _ =>
           let E := fresh "E" in
           destruct c eqn:E;
           [ apply Z.eqb_eq in E; clear - H E Hlen | clear E ]
         end; try discriminate.
  all: try (injection H as <-; split; [exact E|constructor]).
  - (* 22 *) destruct (bit_at b 139) eqn:Eb; injection H as <-; (split; [exact E|]); repeat constructor; exact Eb.
  - (* 24 *) destruct (uval (sub b 38 2)) as [|[p|p|]|p] eqn:Eu; try discriminate; injection H as <-;
      cbn [disc_end] in Hlen; rewrite two_bits in Eu by lia;
      (split; [exact E|]); destruct (bit_at b 38) eqn:Ea, (bit_at b 39) eqn:Es; cbn [b2z] in Eu; try discriminate;
      repeat constructor; assumption.
  - (* 25 *) destruct (bit_at b 38) eqn:Ea, (bit_at b 39) eqn:Es; injection H as <-; (split; [exact E|]);
      repeat constructor; assumption.
  - (* 26 *) destruct (bit_at b 38) eqn:Ea, (bit_at b 39) eqn:Es; injection H as <-; (split; [exact E|]);
      repeat constructor; assumption.
Qed.

Lemma known_bits_before_disc_end : forall v, forallb (fun p => Nat.ltb (fst p) (disc_end v)) (known_bits v) = true.
Proof. destruct v; reflexivity. Qed.

(* DESIGN 7/C11 dispatch_prefix_stable: the discriminator bits are inside every prefix that C11 quantifies over *)
Lemma selects_prefix : forall b v n, selects b v -> (Nat.max 6 (disc_end v) <= n)%nat -> selects (firstn n b) v.
Proof.
  intros b v n [Ht Hk] Hn. split.
  - rewrite sub_firstn by lia. exact Ht.
  - pose proof (known_bits_before_disc_end v) as Hd. revert Hk Hd.
    induction (known_bits v) as [|[i x] r IH]; intros Hk Hd; constructor.
    + inversion Hk; subst. cbn [forallb fst] in Hd. apply andb_true_iff in Hd as [Hi _]. apply Nat.ltb_lt in Hi.
      cbn [fst snd] in *. unfold bit_at in *. rewrite nth_firstn_lt by lia. assumption.
    + inversion Hk; subst. cbn [forallb] in Hd. apply andb_true_iff in Hd as [_ Hr]. auto.
Qed.

Lemma dispatch_of_selects : forall b v, selects b v -> (6 <= length b)%nat -> (disc_end v <= length b)%nat ->
  exists dt ct, assoc_z (get_int b 0 6 false) msg_class_table = Some (dt, ct) /\ run_dtree dt b = Ok (cls_of v).
Proof.
  intros b v [Ht Hk] H6 Hd. rewrite get_int_uval by lia. change (6 - 0)%nat with 6%nat. rewrite Ht.
  pose proof (dispatch_tables_match_spec v) as Hs. unfold dispatch_sel in Hs.
  destruct (forallb (fun p => Nat.ltb (fst p) (disc_end v)) (known_bits v)) eqn:Ekb; [|discriminate].
  destruct (assoc_z (type_id v) msg_class_table) as [[dt ct]|]; [|discriminate].
  destruct (tree_sel dt (known_bits v)) as [[c|e]|] eqn:Et; try discriminate. injection Hs as ->.
  exists dt, ct. split; [reflexivity|]. exact (tree_sel_sound _ _ _ _ _ Hk Ekb Hd Et).
Qed.

(* DESIGN 7/C01 dispatch_matches_spec: for every bit list that contains the discriminator, the class MSG_CLASS and the
   dispatcher select is the class of the variant spec_variant selects *)
Theorem dispatch_matches_spec : forall b v, spec_variant b = Some v -> (6 <= length b)%nat ->
  (disc_end v <= length b)%nat ->
  exists dt ct, assoc_z (get_int b 0 6 false) msg_class_table = Some (dt, ct) /\ run_dtree dt b = Ok (cls_of v).
Proof. intros b v H H6 Hd. apply dispatch_of_selects; auto. apply spec_variant_selects; assumption. Qed.

Lemma decode_bits_of_selects : forall b v vals, selects b v -> (6 <= length b)%nat -> (disc_end v <= length b)%nat ->
  from_bitarray (cls_of v) b = Ok vals -> decode_bits b = Ok (cls_of v, vals).
Proof.
  intros b v vals Hs H6 Hd Hf. destruct (dispatch_of_selects b v Hs H6 Hd) as (dt & ct & Ha & Hr).
  unfold decode_bits, decode_bits_as. rewrite Ha, Hr. cbn [bind]. rewrite Hf. reflexivity.
Qed.

(* ------------------------------------------------------------------------------------------------ *)
(* 6. C01                                                                                              *)

Definition pad_field (b : list bool) (s : sfield) : bool :=
  match s_kind s with
  | KT => forallb negb (sub b (s_off s + (s_width s / 6) * 6) (s_width s mod 6))
  | _ => true
  end.

Lemma text_pad_zero_fields : forall v b, text_pad_zero v b = forallb (pad_field b) (spec_layout v).
Proof. reflexivity. Qed.

Lemma pad_field_pad_ok : forall b s, (s_off s + s_width s <= length b)%nat -> pad_field b s = true ->
  pad_ok (s_kind s) (sub b (s_off s) (s_width s)) = true.
Proof.
  intros b s Hl H. unfold pad_field in H. destruct (s_kind s); try reflexivity.
  cbn [pad_ok]. unfold tail_zero. rewrite sub_length by lia. unfold sub in *.
  rewrite skipn_firstn_comm, skipn_skipn_add.
  replace (s_width s - s_width s / 6 * 6)%nat with (s_width s mod 6)%nat by lia.
  exact H.
Qed.

Lemma total_width_cons : forall s sr, total_width (s :: sr) = (s_width s + total_width sr)%nat.
Proof. reflexivity. Qed.

Lemma dec1_inside : forall f b off, (0 < f_width f)%nat -> (off + f_width f <= length b)%nat ->
  dec1 f b off = bind (decode_field f (sub b off (f_width f))) (fun kw => apply_opt_conv (f_attrs_conv f) kw).
Proof.
  intros f b off Hp Hl. unfold dec1, field_at.
  replace (length b <=? off)%nat with false by (symmetry; apply Nat.leb_gt; lia).
  rewrite slice_sub. replace (Nat.min (length b) (off + f_width f) - off)%nat with (f_width f) by lia. reflexivity.
Qed.

Lemma dec_all_match : forall fs sfs off b,
  field_errors fs sfs off = [] -> (off + total_width sfs <= length b)%nat -> forallb (pad_field b) sfs = true ->
  exists vals, mseq (dec_all fs b off) = Ok vals /\
    Forall2 val_matches vals (map (fun s => spec_value (s_kind s) (sub b (s_off s) (s_width s))) sfs).
Proof.
  induction fs as [|f fr IH]; intros [|s sr] off b He Hl Hp; try discriminate.
  - exists []. split; [reflexivity|constructor].
  - apply field_errors_cons in He as (_ & Hw & Ho & Hpos & Hs & He).
    rewrite total_width_cons in Hl. cbn [forallb] in Hp. apply andb_true_iff in Hp as [Hp1 Hp].
    destruct (IH sr (off + f_width f)%nat b He ltac:(lia) Hp) as (vals & Hm & HF).
    destruct (kind_sem (s_kind s) f (sub b off (f_width f)) Hs (sub_length_le _ _ _)) as (kw & v & Hd & Ha & Hv).
    exists (v :: vals). split.
    + cbn [dec_all]. apply mseq_cons_ok; [|exact Hm]. rewrite dec1_inside by lia. rewrite Hd. exact Ha.
    + cbn [map]. constructor; [|exact HF]. subst off. rewrite <- Hw. apply Hv.
      rewrite Hw. apply pad_field_pad_ok; [lia|exact Hp1].
Qed.

Lemma nominal_covers_disc : forall v, (6 <= nominal v)%nat /\ (disc_end v <= nominal v)%nat.
Proof. destruct v; split; apply Nat.leb_le; vm_compute; reflexivity. Qed.

(* C01: for every layout variant and every bit string of its nominal length that selects the variant by its own
   discriminator bits (text padding zero), the model of pyais.decode returns the class of the variant and, field by
   field, a value that satisfies the value the ITU/gpsd layout assigns; the field names are those of the layout. *)
Theorem C01_decode : forall v bits,
  length bits = nominal v -> spec_variant bits = Some v -> text_pad_zero v bits = true ->
  exists vals,
    decode_bits bits = Ok (cls_of v, vals) /\
    Forall2 val_matches vals (map snd (spec_decode v bits)) /\
    map f_name (fields_of (cls_of v)) = map fst (spec_decode v bits) /\
    class_name (cls_of v) = variant_class v.
Proof.
  intros v bits Hlen Hv Hpad.
  destruct (layout_ok_inv _ _ (tables_match_spec v)) as (Hname & Htot & Herr).
  destruct (nominal_covers_disc v) as [H6 Hd].
  rewrite text_pad_zero_fields in Hpad.
  destruct (dec_all_match _ _ 0%nat bits Herr ltac:(lia) Hpad) as (vals & Hm & HF).
  exists vals. repeat split.
  - apply decode_bits_of_selects; try lia.
    + apply spec_variant_selects; [exact Hv|lia].
    + apply from_bitarray_of_dec_all. exact Hm.
  - unfold spec_decode. rewrite map_map. exact HF.
  - unfold spec_decode. rewrite map_map. exact (field_errors_names _ _ _ Herr).
  - exact Hname.
Qed.

(* ------------------------------------------------------------------------------------------------ *)
(* 7. C11                                                                                              *)

Lemma kind_none : forall k f, sig_ok k f = true -> apply_opt_conv (f_attrs_conv f) VNone = Ok VNone.
Proof.
  intros k f Hs. rewrite apply_resolve. destruct k; use_sig Hs;
    try (match goal with H : resolve (f_attrs_conv f) = _ |- _ => rewrite H end; reflexivity).
  destruct (enum_conv (resolve (f_to f)) (resolve (f_attrs_conv f))) eqn:Ec; [|discriminate].
  unfold enum_conv in Ec.
  destruct (resolve (f_to f)); destruct (resolve (f_attrs_conv f)); try discriminate; reflexivity.
Qed.

Lemma dec1_total : forall k f b off, sig_ok k f = true -> exists v, dec1 f b off = Ok v.
Proof.
  intros k f b off Hs. unfold dec1, field_at. destruct (length b <=? off)%nat.
  - exists VNone. cbn [bind]. exact (kind_none _ _ Hs).
  - rewrite slice_sub.
    destruct (kind_sem k f (sub b off (Nat.min (length b) (off + f_width f) - off)) Hs) as (kw & v & Hd & Ha & _).
    + pose proof (sub_length_le b off (Nat.min (length b) (off + f_width f) - off)). lia.
    + exists v. rewrite Hd. exact Ha.
Qed.

(* decoding never fails on a payload of any length whose class has a table that matches a layout *)
Lemma dec_all_total : forall fs sfs off b, field_errors fs sfs off = [] -> exists vals, mseq (dec_all fs b off) = Ok vals.
Proof.
  induction fs as [|f fr IH]; intros [|s sr] off b He; try discriminate.
  - exists []. reflexivity.
  - apply field_errors_cons in He as (_ & _ & _ & _ & Hs & He).
    destruct (IH _ _ b He) as (vals & Hm). destruct (dec1_total _ f b off Hs) as (v & Hv).
    exists (v :: vals). cbn [dec_all]. apply mseq_cons_ok; assumption.
Qed.

Lemma dec_all_length : forall fs b off, length (dec_all fs b off) = length fs.
Proof. induction fs as [|f fr IH]; intros; [reflexivity|]. cbn [dec_all List.length]. f_equal. apply IH. Qed.

(* a field that lies completely inside the prefix decodes as in the whole payload *)
Lemma dec1_prefix_inside : forall f b n off, (n <= length b)%nat -> (0 < f_width f)%nat -> (off + f_width f <= n)%nat ->
  dec1 f (firstn n b) off = dec1 f b off.
Proof.
  intros f b n off Hn Hp Hi. rewrite !dec1_inside by (rewrite ?firstn_length; lia).
  rewrite sub_firstn by lia. reflexivity.
Qed.

(* a field that starts at or beyond the end of the prefix is None *)
Lemma dec1_prefix_beyond : forall k f b n off, sig_ok k f = true -> (n <= length b)%nat -> (n <= off)%nat ->
  dec1 f (firstn n b) off = Ok VNone.
Proof.
  intros k f b n off Hs Hn Ho. unfold dec1, field_at. rewrite firstn_length.
  replace (Nat.min n (length b) <=? off)%nat with true by (symmetry; apply Nat.leb_le; lia).
  cbn [bind]. exact (kind_none _ _ Hs).
Qed.

(* C11: every prefix that still contains the type id and the variant discriminator decodes without an exception to
   the same class; a field that lies completely inside the prefix has the value it has in the untruncated message;
   a field that starts at or beyond the end of the prefix is None.  The positions are those of the layout. *)
Theorem C11_truncated : forall v bits n,
  length bits = nominal v -> spec_variant bits = Some v ->
  (Nat.max 6 (disc_end v) <= n <= length bits)%nat ->
  exists vals vals',
    decode_bits bits = Ok (cls_of v, vals) /\
    decode_bits (firstn n bits) = Ok (cls_of v, vals') /\
    length vals = length (spec_layout v) /\ length vals' = length (spec_layout v) /\
    forall i f, nth_error (spec_layout v) i = Some f ->
      ((s_off f + s_width f <= n)%nat -> nth_error vals' i = nth_error vals i) /\
      ((n <= s_off f)%nat -> nth_error vals' i = Some VNone).
Proof.
  intros v bits n Hlen Hv Hn.
  destruct (layout_ok_inv _ _ (tables_match_spec v)) as (_ & _ & Herr).
  destruct (nominal_covers_disc v) as [H6 Hd].
  assert (Hsel : selects bits v) by (apply spec_variant_selects; [exact Hv|lia]).
  assert (Hsel' : selects (firstn n bits) v) by (apply selects_prefix; [exact Hsel|lia]).
  destruct (dec_all_total _ _ 0%nat bits Herr) as (vals & Hm).
  destruct (dec_all_total _ _ 0%nat (firstn n bits) Herr) as (vals' & Hm').
  exists vals, vals'. split; [|split; [|split; [|split]]].
  - apply decode_bits_of_selects; try lia; [exact Hsel|]. apply from_bitarray_of_dec_all. exact Hm.
  - apply decode_bits_of_selects; rewrite ?firstn_length; try lia; [exact Hsel'|].
    apply from_bitarray_of_dec_all. exact Hm'.
  - rewrite (mseq_length _ _ Hm), dec_all_length. exact (field_errors_length _ _ _ Herr).
  - rewrite (mseq_length _ _ Hm'), dec_all_length. exact (field_errors_length _ _ _ Herr).
  - intros i s Hi. destruct (field_errors_nth _ _ _ _ _ Herr Hi) as (f & Hf & Hw & Hp & Hs & Hnth).
    destruct (mseq_nth _ _ _ _ Hm (Hnth bits)) as (a & Ha & Hva).
    destruct (mseq_nth _ _ _ _ Hm' (Hnth (firstn n bits))) as (a' & Ha' & Hva').
    split; intros Hc.
    + rewrite dec1_prefix_inside in Ha' by lia. rewrite Hva, Hva'. congruence.
    + rewrite (dec1_prefix_beyond _ _ _ _ _ Hs) in Ha' by lia. rewrite Hva'. congruence.
Qed.

(* ------------------------------------------------------------------------------------------------ *)
(* real payloads for the non-vacuity examples of Props/C01.v and Props/C11.v                          *)

Definition payload_codes (s : string) : list Z :=
  map (fun c => Z.of_nat (Ascii.nat_of_ascii c)) (list_ascii_of_string s).

(* !AIVDM,1,1,,B,15M67FC000G?ufbE`FepT@3n00Sa,0*5C  (a class A position report west of Greenwich) *)
Definition sample_type1 : list Z := payload_codes "15M67FC000G?ufbE`FepT@3n00Sa".
(* !AIVDM,2,1,1,A,55?MbV02;H;s<HtKR20EHE:0@T4@Dn2222222216L961O5Gf0NSQEp6ClRp8,0*1C
   !AIVDM,2,2,1,A,88888888880,2*25                 (static and voyage data, three text fields) *)
Definition sample_type5 : list Z :=
  payload_codes "55?MbV02;H;s<HtKR20EHE:0@T4@Dn2222222216L961O5Gf0NSQEp6ClRp888888888880".
