(* C01: decoding follows the published bit layout.  (Shared parts: Proofs/CodecCommon.v, Proofs/BitsLemmas.v.)

   kind_sem             per layout kind: a model field with the matching signature decodes every slice to a value related to
                        spec_value by val_matches (text, bytes: list inductions; enumerations, rate of turn: finite sweeps
                        over the REGENERATED tables, lifted by forallb_forall)
   tables_match_spec    the 35 regenerated field tables against Spec/Layout.v, by vm_compute, one lemma per variant
   C01_decode           the main theorem

   All statements quantify over all bit lists; nothing enumerates payloads. *)
From Coq Require Import ZArith List Bool String Lia ZifyBool ZifyNat.
Require Import Prim.Exn Prim.Bits Prim.Dict Gen.GenEnums Model.FieldTypes Gen.GenTables Gen.GenDispatch Gen.GenConv
               Model.Codec Spec.Layout Spec.LayoutRel Proofs.BitsLemmas Proofs.CodecCommon.
Import ListNotations.
Open Scope list_scope.
Open Scope Z_scope.
Ltac Zify.zify_post_hook ::= Z.to_euclidean_division_equations.

Local Notation length := List.length (only parsing).

Lemma mkfloat_frac : forall n d, 0 < d -> exists n' d', mkfloat n d = VFloat n' d' /\ n' * d = n * Zpos d'.
Proof.
  intros n d Hd. unfold mkfloat.
  replace (d =? 0) with false by lia.
  destruct (n mod d =? 0) eqn:E.
  - exists (n / d), 1%positive. split; [reflexivity|]. lia.
  - exists n, (Z.to_pos d). split; [reflexivity|]. rewrite Z2Pos.id by lia. reflexivity.
Qed.

Lemma apply_div10 : forall z, apply_shape (ShDiv (mkDec 10 0)) (VFloat z 1) = Ok (mkfloat (z * 1 * 1) 10).
Proof. reflexivity. Qed.

Lemma apply_round_div_6 : forall k z, 0 < k ->
  apply_shape (ShRoundFloatDiv (mkDec k 0) 6) (VFloat z 1) = Ok (mkfloat (rhe (z * 1 * 1000000) (1 * k)) 1000000).
Proof.
  intros k z Hk. unfold apply_shape, as_frac, dec_num_den, dec_num, dec_exp.
  replace (k <=? 0) with false by lia. reflexivity.
Qed.

Lemma rhe_spec : forall a b, rhe a b = round_half_even a b.
Proof. reflexivity. Qed.

(* ------------------------------------------------------------------------------------------------ *)
(* finite sweeps over the regenerated enumeration tables and the rate-of-turn converter               *)

Lemma zmem_in : forall x l, zmem x l = true -> In x l.
Proof.
  intros x l H. unfold zmem in H. apply existsb_exists in H as (y & Hy & E). apply Z.eqb_eq in E. subst. exact Hy.
Qed.

Lemma zlist_eqb_eq : forall a b, zlist_eqb a b = true -> a = b.
Proof.
  unfold zlist_eqb. induction a as [|x a IH]; intros [|y b] H; try reflexivity; cbn in H; try discriminate.
  apply andb_true_iff in H as [Hl H]. cbn [combine forallb fst snd] in H. apply andb_true_iff in H as [Hxy H].
  apply Z.eqb_eq in Hxy. subst. f_equal. apply IH. rewrite Hl. exact H.
Qed.

Lemma val_matchesb_sound : forall v s, val_matchesb v s = true -> val_matches v s.
Proof.
  intros v s H. destruct s, v; cbn [val_matchesb] in H; try discriminate; cbn [val_matches].
  - apply Z.eqb_eq. exact H.
  - apply eqb_prop. exact H.
  - apply Z.eqb_eq. exact H.
  - apply zlist_eqb_eq. exact H.
  - apply zlist_eqb_eq. exact H.
  - split_andb. repeat split.
    + apply String.eqb_eq. assumption.
    + apply zmem_in. assumption.
    + intros ->. apply Z.eqb_eq. assumption.
  - apply Z.eqb_eq. exact H.
Qed.

Definition all_senums : list senum :=
  [SE_NavigationStatus; SE_ManeuverIndicator; SE_EpfdType; SE_ShipType; SE_NavAid; SE_StationType; SE_TransmitMode;
   SE_StationIntervals].

Lemma all_senums_complete : forall e, In e all_senums.
Proof. destruct e; cbn; repeat (first [left; reflexivity | right]). Qed.

Lemma all_enums_complete : forall e, In e all_enums.
Proof. destruct e; cbn; repeat (first [left; reflexivity | right]). Qed.

(* every code an enumeration field of at most 8 bits can carry is constructed into a member, the member with that very
   code whenever the standard defines the code *)
Definition enum_code_ok (e' : enum_id) (e : senum) (code : Z) : bool :=
  match enum_ctor e' code with
  | Ok m => zmem m (enum_members e') && (if existsb (Z.eqb code) (senum_defined e) then m =? code else true)
  | Raise _ => false
  end.

(* re-checked against the regenerated Gen/GenEnums.v on every run.  (The statement is spelled out rather than named by
   a definition so that the kernel never has to decide which side of a conversion to evaluate.) *)
Lemma enum_members_match_spec :
  forallb (fun e' => forallb (fun e => if String.eqb (enum_name e') (senum_name e)
                                       then forallb (enum_code_ok e' e) (zrange 0 255) else true)
                             all_senums) all_enums = true.
Proof. vm_compute. reflexivity. Qed.

Lemma enum_code_sem : forall e' e code, enum_name e' = senum_name e -> 0 <= code < 256 ->
  exists m, enum_ctor e' code = Ok m /\ In m (enum_members e') /\
            (existsb (Z.eqb code) (senum_defined e) = true -> m = code).
Proof.
  intros e' e code Hn Hc.
  pose proof (proj1 (forallb_forall _ _) enum_members_match_spec e' (all_enums_complete e')) as H1.
  cbv beta in H1.
  pose proof (proj1 (forallb_forall _ _) H1 e (all_senums_complete e)) as H2. cbv beta in H2. clear H1.
  apply String.eqb_eq in Hn. rewrite Hn in H2.
  pose proof (proj1 (forallb_forall _ _) H2 code (in_zrange 0 255 code ltac:(lia))) as H. clear H2.
  unfold enum_code_ok in H.
  destruct (enum_ctor e' code) as [m|]; [|discriminate]. exists m. split_andb. repeat split.
  - apply zmem_in. assumption.
  - intros Hd. rewrite Hd in *. apply Z.eqb_eq. assumption.
Qed.

(* the 256 rate-of-turn codes through the regenerated to_turn constants and the TurnRate enumeration *)
Definition turn_code_ok (code : Z) : bool :=
  match apply_shape (ShToTurn 127 128 (mkDec 4733 3)) (VFloat code 1) with
  | Ok v => val_matchesb v (spec_turn code)
  | Raise _ => false
  end.

Lemma turn_codes_match_spec : forallb turn_code_ok (zrange (-128) 127) = true.
Proof. vm_compute. reflexivity. Qed.

Lemma turn_code_sem : forall code, -128 <= code < 128 ->
  exists v, apply_shape (ShToTurn 127 128 (mkDec 4733 3)) (VFloat code 1) = Ok v /\ val_matches v (spec_turn code).
Proof.
  intros code Hc.
  pose proof (proj1 (forallb_forall _ _) turn_codes_match_spec code (in_zrange (-128) 127 code ltac:(lia))) as H.
  unfold turn_code_ok in H.
  destruct (apply_shape _ _) as [v|]; [|discriminate]. exists v. split; [reflexivity|].
  apply val_matchesb_sound. exact H.
Qed.

(* ------------------------------------------------------------------------------------------------ *)
(* six-bit text                                                                                        *)

Lemma lstrip_ltrim : forall s, lstrip_sp s = ltrim s.
Proof. induction s as [|c r IH]; [reflexivity|]. cbn [lstrip_sp ltrim]. rewrite IH. reflexivity. Qed.

Lemma strip_trim : forall s, strip_sp s = trim s.
Proof. intros. unfold strip_sp, trim. rewrite !lstrip_ltrim. reflexivity. Qed.

Lemma ascii6_char_six : forall c, length c = 6%nat -> ascii6_char c = sixbit_char (uval c).
Proof.
  intros c H. unfold ascii6_char, sixbit_char. pose proof (int_read_unsigned c) as E. rewrite H in E.
  change (Z.of_nat (pad_len 6)) with 2 in E. rewrite E. reflexivity.
Qed.

Lemma ascii6_char_zero : forall c, forallb negb c = true -> ascii6_char c = 64.
Proof.
  intros c H. unfold ascii6_char. rewrite from_bytes_u_uval, uval_zero_all_false by assumption. reflexivity.
Qed.

Lemma chunks_fuel_nil : forall {A} fuel n, @chunks_fuel A fuel n [] = [].
Proof. destruct fuel; reflexivity. Qed.

Lemma sixbit_char_at : forall c, 0 <= c < 64 -> (sixbit_char c =? 64) = (c =? 0).
Proof. intros c H. unfold sixbit_char. destruct (c <? 32) eqn:E; lia. Qed.

Definition tail_zero (bs : bits) : bool := forallb negb (skipn ((length bs / 6) * 6) bs).

Lemma text_loop_eq : forall fuel bs, (length bs <= fuel)%nat -> tail_zero bs = true ->
  ascii6_loop (chunks_fuel fuel 6 bs) = until_at (sixbit_codes bs fuel).
Proof.
  induction fuel as [|f IH]; intros bs Hl Hz.
  - destruct bs; [reflexivity|cbn in Hl; lia].
  - destruct bs as [|b0 [|b1 [|b2 [|b3 [|b4 [|b5 r]]]]]];
      try (cbn [chunks_fuel firstn skipn sixbit_codes until_at ascii6_loop];
           rewrite chunks_fuel_nil; rewrite ascii6_char_zero by exact Hz; reflexivity).
    + reflexivity.
    + cbn [chunks_fuel firstn skipn sixbit_codes until_at ascii6_loop].
      rewrite ascii6_char_six by reflexivity.
      pose proof (uval_bound [b0; b1; b2; b3; b4; b5]) as Hb. change (2 ^ Z.of_nat (length [b0; b1; b2; b3; b4; b5])) with 64 in Hb.
      rewrite sixbit_char_at by exact Hb.
      destruct (uval [b0; b1; b2; b3; b4; b5] =? 0); [reflexivity|]. f_equal. apply IH.
      * cbn [List.length] in Hl. lia.
      * unfold tail_zero in *. cbn [List.length] in Hz.
        replace (S (S (S (S (S (S (length r)))))) / 6 * 6)%nat with (6 + (length r / 6) * 6)%nat in Hz by lia.
        exact Hz.
Qed.

(* decode_bin_as_ascii6 = spec_text when the sub-character padding bits are zero *)
Theorem text_model_spec : forall bs, tail_zero bs = true -> decode_bin_as_ascii6 bs = spec_text bs.
Proof.
  intros bs H. unfold decode_bin_as_ascii6, spec_text, chunks. rewrite strip_trim, text_loop_eq by (lia || assumption).
  reflexivity.
Qed.

(* ------------------------------------------------------------------------------------------------ *)
(* 3. per layout kind                                                                                  *)

Definition pad_ok (k : kind) (bs : bits) : bool :=
  match k with KT => tail_zero bs | _ => true end.

Lemma dtype_eqb_eq : forall a b, dtype_eqb a b = true -> a = b.
Proof. destruct a, b; cbn; congruence. Qed.

Lemma dec_is_eq : forall c n e, dec_is c n e = true -> c = mkDec n e.
Proof.
  intros [cn ce] n e H. unfold dec_is in H. cbn [dec_num dec_exp] in H. split_andb.
  apply Z.eqb_eq in H. apply Nat.eqb_eq in H0. subst. reflexivity.
Qed.

Lemma is_div_eq : forall r n e, is_div r n e = true -> r = RShape (ShDiv (mkDec n e)).
Proof.
  intros r n e H. destruct r as [|sh| | |]; try discriminate. destruct sh; try discriminate.
  cbn [is_div] in H. apply dec_is_eq in H. subst. reflexivity.
Qed.

Lemma is_round_div_eq : forall r n e d, is_round_div r n e d = true -> r = RShape (ShRoundFloatDiv (mkDec n e) d).
Proof.
  intros r n e d H. destruct r as [|sh| | |]; try discriminate. destruct sh; try discriminate.
  cbn [is_round_div] in H. split_andb. apply dec_is_eq in H. apply Z.eqb_eq in H0. subst. reflexivity.
Qed.

Lemma is_to_turn_eq : forall r, is_to_turn r = true -> r = RShape (ShToTurn 127 128 (mkDec 4733 3)).
Proof.
  intros r H. destruct r as [|sh| | |]; try discriminate. destruct sh; try discriminate.
  cbn [is_to_turn] in H. split_andb. apply dec_is_eq in H0. apply Z.eqb_eq in H, H1. subst. reflexivity.
Qed.

Lemma sval_small : forall bs, (length bs <= 8)%nat -> -128 <= sval_ bs < 128.
Proof.
  intros bs H. destruct bs as [|x r]; [cbn; lia|].
  pose proof (sval_bound (x :: r) ltac:(discriminate)) as Hb.
  assert (2 ^ Z.of_nat (length (x :: r) - 1) <= 2 ^ 7) by (apply Z.pow_le_mono_r; lia).
  change (2 ^ 7) with 128 in *. lia.
Qed.

Ltac use_sig H :=
  unfold sig_ok in H; split_andb;
  repeat match goal with
         | H : dtype_eqb _ _ = true |- _ => apply dtype_eqb_eq in H
         | H : is_none _ = true |- _ => apply is_none_eq in H
         | H : is_div _ _ _ = true |- _ => apply is_div_eq in H
         | H : is_round_div _ _ _ _ = true |- _ => apply is_round_div_eq in H
         | H : is_to_turn _ = true |- _ => apply is_to_turn_eq in H
         | H : negb _ = true |- _ => apply negb_true_iff in H
         end.

Ltac start_kind f bs :=
  rewrite !apply_resolve, decode_field_raw, raw_value_int; unfold int_of;
  repeat match goal with
         | H : f_dtype f = _ |- _ => rewrite H
         | H : f_signed f = _ |- _ => rewrite H
         | H : resolve _ = _ |- _ => rewrite H
         end;
  cbn [apply_rconv].

(* a model field whose signature is the one its layout kind demands decodes every slice that is not longer than the
   field -- without an exception, and to the value the layout assigns to the slice *)
Theorem kind_sem : forall k f bs, sig_ok k f = true -> (length bs <= f_width f)%nat ->
  exists kw v, decode_field f bs = Ok kw /\ apply_opt_conv (f_attrs_conv f) kw = Ok v /\
               (pad_ok k bs = true -> val_matches v (spec_value k bs)).
Proof.
  intros k f bs Hs Hl. destruct k.
  - (* KU *) use_sig Hs. do 2 eexists. start_kind f bs. repeat split.
  - (* KB *) use_sig Hs. do 2 eexists. start_kind f bs. repeat split.
  - (* KU10 *) use_sig Hs. destruct (mkfloat_frac (uval bs * 1 * 1) 10 ltac:(lia)) as (n' & d' & E & Hf).
    do 2 eexists. start_kind f bs. rewrite apply_div10, E. repeat split. cbn [val_matches spec_value]. lia.
  - (* KI10 *) use_sig Hs. destruct (mkfloat_frac (sval_ bs * 1 * 1) 10 ltac:(lia)) as (n' & d' & E & Hf).
    do 2 eexists. start_kind f bs. rewrite apply_div10, E. repeat split. cbn [val_matches spec_value]. lia.
  - (* KF1 *) use_sig Hs. do 2 eexists. start_kind f bs. repeat split.
  - (* KLL *) use_sig Hs.
    destruct (mkfloat_frac (rhe (sval_ bs * 1 * 1000000) (1 * 600000)) 1000000 ltac:(lia)) as (n' & d' & E & Hf).
    do 2 eexists. start_kind f bs. rewrite apply_round_div_6, E by lia. repeat split.
    intros _. cbn [val_matches spec_value]. rewrite <- rhe_spec. rewrite Z.mul_1_r in Hf. exact Hf.
  - (* KLL600 *) use_sig Hs.
    destruct (mkfloat_frac (rhe (sval_ bs * 1 * 1000000) (1 * 600)) 1000000 ltac:(lia)) as (n' & d' & E & Hf).
    do 2 eexists. start_kind f bs. rewrite apply_round_div_6, E by lia. repeat split.
    intros _. cbn [val_matches spec_value]. rewrite <- rhe_spec. rewrite Z.mul_1_r in Hf. exact Hf.
  - (* KROT *) use_sig Hs. apply Nat.eqb_eq in H0.
    destruct (turn_code_sem (sval_ bs) (sval_small bs ltac:(lia))) as (v & E & Hv).
    do 2 eexists. start_kind f bs. rewrite E. repeat split. intros _. exact Hv.
  - (* KT *) use_sig Hs. do 2 eexists. start_kind f bs. repeat split.
    cbn [pad_ok val_matches spec_value]. intros Hp. apply text_model_spec. exact Hp.
  - (* KD *) use_sig Hs. do 2 eexists. start_kind f bs. repeat split.
    intros _. cbn [val_matches spec_value]. apply bytes_model_spec.
  - (* KX *) use_sig Hs. do 2 eexists. start_kind f bs. repeat split.
    intros _. cbn [val_matches spec_value]. apply bytes_model_spec.
  - (* KE *) use_sig Hs. apply Nat.leb_le in H1.
    destruct (enum_conv_full (resolve (f_to f)) (resolve (f_attrs_conv f))) as [e'|] eqn:Ec; [|discriminate].
    apply String.eqb_eq in H0.
    pose proof (uval_bound bs) as Hb.
    assert (2 ^ Z.of_nat (length bs) <= 256) by (apply pow2_le_256; lia).
    destruct (enum_code_sem e' e (uval bs) H0 ltac:(lia)) as (m & Em & Hin & Hdef).
    unfold enum_conv_full, enum_conv in Ec.
    destruct (resolve (f_to f)) eqn:Eto; destruct (resolve (f_attrs_conv f)) eqn:Eat; try discriminate;
      injection Ec as ->;
      (exists (match resolve (f_to f) with RNone => VInt (uval bs) | _ => VEnum e' m end), (VEnum e' m));
      start_kind f bs; rewrite ?Eto; cbn [enum_of_value apply_rconv]; rewrite ?Em; cbn [bind];
      (split; [reflexivity|]); (split; [reflexivity|]); intros _;
      cbn [val_matches spec_value]; auto.
Qed.

(* ------------------------------------------------------------------------------------------------ *)
(* the regenerated field tables against the layout tables                                             *)

Lemma layout_ok_inv : forall c v, layout_ok c v = true ->
  class_name c = variant_class v /\ total_width (spec_layout v) = nominal v /\
  field_errors ok_c01 "signature (type, sign or converter)" (fields_of c) (spec_layout v) 0 = [].
Proof.
  intros c v H. unfold layout_ok in H. apply table_errors_inv.
  destruct (layout_errors c v) eqn:E; [exact E|discriminate].
Qed.

(* One lemma per layout variant, so that a changed width / sign flag / converter / field order in pyais/messages.py is
   reported under the name of the variant, with the complaint of the checker in the error message
   (e.g. Unable to unify "[]" with "["MessageType17.lon: signature (type, sign or converter)"]"). *)
Ltac table_check := vm_compute; reflexivity.
Lemma tables_match_spec_V1 : layout_errors (cls_of V1) V1 = []. Proof. table_check. Qed.
Lemma tables_match_spec_V2 : layout_errors (cls_of V2) V2 = []. Proof. table_check. Qed.
Lemma tables_match_spec_V3 : layout_errors (cls_of V3) V3 = []. Proof. table_check. Qed.
Lemma tables_match_spec_V4 : layout_errors (cls_of V4) V4 = []. Proof. table_check. Qed.
Lemma tables_match_spec_V5 : layout_errors (cls_of V5) V5 = []. Proof. table_check. Qed.
Lemma tables_match_spec_V6 : layout_errors (cls_of V6) V6 = []. Proof. table_check. Qed.
Lemma tables_match_spec_V7 : layout_errors (cls_of V7) V7 = []. Proof. table_check. Qed.
Lemma tables_match_spec_V8 : layout_errors (cls_of V8) V8 = []. Proof. table_check. Qed.
Lemma tables_match_spec_V9 : layout_errors (cls_of V9) V9 = []. Proof. table_check. Qed.
Lemma tables_match_spec_V10 : layout_errors (cls_of V10) V10 = []. Proof. table_check. Qed.
Lemma tables_match_spec_V11 : layout_errors (cls_of V11) V11 = []. Proof. table_check. Qed.
Lemma tables_match_spec_V12 : layout_errors (cls_of V12) V12 = []. Proof. table_check. Qed.
Lemma tables_match_spec_V13 : layout_errors (cls_of V13) V13 = []. Proof. table_check. Qed.
Lemma tables_match_spec_V14 : layout_errors (cls_of V14) V14 = []. Proof. table_check. Qed.
Lemma tables_match_spec_V15 : layout_errors (cls_of V15) V15 = []. Proof. table_check. Qed.
Lemma tables_match_spec_V16 : layout_errors (cls_of V16) V16 = []. Proof. table_check. Qed.
Lemma tables_match_spec_V17 : layout_errors (cls_of V17) V17 = []. Proof. table_check. Qed.
Lemma tables_match_spec_V18 : layout_errors (cls_of V18) V18 = []. Proof. table_check. Qed.
Lemma tables_match_spec_V19 : layout_errors (cls_of V19) V19 = []. Proof. table_check. Qed.
Lemma tables_match_spec_V20 : layout_errors (cls_of V20) V20 = []. Proof. table_check. Qed.
Lemma tables_match_spec_V21 : layout_errors (cls_of V21) V21 = []. Proof. table_check. Qed.
Lemma tables_match_spec_V22Addressed : layout_errors (cls_of V22Addressed) V22Addressed = []. Proof. table_check. Qed.
Lemma tables_match_spec_V22Broadcast : layout_errors (cls_of V22Broadcast) V22Broadcast = []. Proof. table_check. Qed.
Lemma tables_match_spec_V23 : layout_errors (cls_of V23) V23 = []. Proof. table_check. Qed.
Lemma tables_match_spec_V24A : layout_errors (cls_of V24A) V24A = []. Proof. table_check. Qed.
Lemma tables_match_spec_V24B : layout_errors (cls_of V24B) V24B = []. Proof. table_check. Qed.
Lemma tables_match_spec_V25AddressedStructured :
  layout_errors (cls_of V25AddressedStructured) V25AddressedStructured = []. Proof. table_check. Qed.
Lemma tables_match_spec_V25BroadcastStructured :
  layout_errors (cls_of V25BroadcastStructured) V25BroadcastStructured = []. Proof. table_check. Qed.
Lemma tables_match_spec_V25AddressedUnstructured :
  layout_errors (cls_of V25AddressedUnstructured) V25AddressedUnstructured = []. Proof. table_check. Qed.
Lemma tables_match_spec_V25BroadcastUnstructured :
  layout_errors (cls_of V25BroadcastUnstructured) V25BroadcastUnstructured = []. Proof. table_check. Qed.
Lemma tables_match_spec_V26AddressedStructured :
  layout_errors (cls_of V26AddressedStructured) V26AddressedStructured = []. Proof. table_check. Qed.
Lemma tables_match_spec_V26BroadcastStructured :
  layout_errors (cls_of V26BroadcastStructured) V26BroadcastStructured = []. Proof. table_check. Qed.
Lemma tables_match_spec_V26AddressedUnstructured :
  layout_errors (cls_of V26AddressedUnstructured) V26AddressedUnstructured = []. Proof. table_check. Qed.
Lemma tables_match_spec_V26BroadcastUnstructured :
  layout_errors (cls_of V26BroadcastUnstructured) V26BroadcastUnstructured = []. Proof. table_check. Qed.
Lemma tables_match_spec_V27 : layout_errors (cls_of V27) V27 = []. Proof. table_check. Qed.

(* DESIGN 7/C01 tables_match_spec: for all 35 variants the regenerated field table has the names, widths, contiguous
   offsets and signatures the layout demands, and the widths sum to the nominal length *)
Theorem tables_match_spec : forall v, layout_ok (cls_of v) v = true.
Proof.
  intros v. unfold layout_ok.
  destruct v;
    first [ rewrite tables_match_spec_V1 | rewrite tables_match_spec_V2 | rewrite tables_match_spec_V3
          | rewrite tables_match_spec_V4 | rewrite tables_match_spec_V5 | rewrite tables_match_spec_V6
          | rewrite tables_match_spec_V7 | rewrite tables_match_spec_V8 | rewrite tables_match_spec_V9
          | rewrite tables_match_spec_V10 | rewrite tables_match_spec_V11 | rewrite tables_match_spec_V12
          | rewrite tables_match_spec_V13 | rewrite tables_match_spec_V14 | rewrite tables_match_spec_V15
          | rewrite tables_match_spec_V16 | rewrite tables_match_spec_V17 | rewrite tables_match_spec_V18
          | rewrite tables_match_spec_V19 | rewrite tables_match_spec_V20 | rewrite tables_match_spec_V21
          | rewrite tables_match_spec_V22Addressed | rewrite tables_match_spec_V22Broadcast
          | rewrite tables_match_spec_V23 | rewrite tables_match_spec_V24A | rewrite tables_match_spec_V24B
          | rewrite tables_match_spec_V25AddressedStructured | rewrite tables_match_spec_V25BroadcastStructured
          | rewrite tables_match_spec_V25AddressedUnstructured | rewrite tables_match_spec_V25BroadcastUnstructured
          | rewrite tables_match_spec_V26AddressedStructured | rewrite tables_match_spec_V26BroadcastStructured
          | rewrite tables_match_spec_V26AddressedUnstructured | rewrite tables_match_spec_V26BroadcastUnstructured
          | rewrite tables_match_spec_V27 ]; reflexivity.
Qed.

(* ------------------------------------------------------------------------------------------------ *)
(* 6. C01                                                                                              *)

Definition pad_field (b : list bool) (s : sfield) : bool :=
  match s_kind s with
  | KT => forallb negb (sub b (s_off s + (s_width s / 6) * 6) (s_width s mod 6))
  | _ => true
  end.

Lemma text_pad_zero_fields : forall v b, text_pad_zero v b = forallb (pad_field b) (spec_layout v).
Proof. reflexivity. Qed.

Lemma pad_field_pad_ok : forall b s, (s_off s + s_width s <= length b)%nat -> pad_field b s = true ->
  pad_ok (s_kind s) (sub b (s_off s) (s_width s)) = true.
Proof.
  intros b s Hl H. unfold pad_field in H. destruct (s_kind s); try reflexivity.
  cbn [pad_ok]. unfold tail_zero. rewrite sub_length by lia. unfold sub in *.
  rewrite skipn_firstn_comm, skipn_skipn_add.
  replace (s_width s - s_width s / 6 * 6)%nat with (s_width s mod 6)%nat by lia.
  exact H.
Qed.

Lemma dec_all_match : forall what fs sfs off b,
  field_errors ok_c01 what fs sfs off = [] -> (off + total_width sfs <= length b)%nat -> forallb (pad_field b) sfs = true ->
  exists vals, mseq (dec_all fs b off) = Ok vals /\
    Forall2 val_matches vals (map (fun s => spec_value (s_kind s) (sub b (s_off s) (s_width s))) sfs).
Proof.
  intros what. induction fs as [|f fr IH]; intros [|s sr] off b He Hl Hp; try discriminate.
  - exists []. split; [reflexivity|constructor].
  - apply field_errors_cons in He as (_ & Hw & Ho & Hpos & Hs & He). unfold ok_c01 in Hs.
    rewrite total_width_cons in Hl. cbn [forallb] in Hp. apply andb_true_iff in Hp as [Hp1 Hp].
    destruct (IH sr (off + f_width f)%nat b He ltac:(lia) Hp) as (vals & Hm & HF).
    destruct (kind_sem (s_kind s) f (sub b off (f_width f)) Hs (sub_length_le _ _ _)) as (kw & v & Hd & Ha & Hv).
    exists (v :: vals). split.
    + cbn [dec_all]. apply mseq_cons_ok; [|exact Hm]. rewrite dec1_inside by lia. rewrite Hd. exact Ha.
    + cbn [map]. constructor; [|exact HF]. subst off. rewrite <- Hw. apply Hv.
      rewrite Hw. apply pad_field_pad_ok; [lia|exact Hp1].
Qed.

(* C01: for every layout variant and every bit string of its nominal length that selects the variant by its own
   discriminator bits (text padding zero), the model of pyais.decode returns the class of the variant and, field by
   field, a value that satisfies the value the ITU/gpsd layout assigns; the field names are those of the layout. *)
Theorem C01_decode : forall v bits,
  length bits = nominal v -> spec_variant bits = Some v -> text_pad_zero v bits = true ->
  exists vals,
    decode_bits bits = Ok (cls_of v, vals) /\
    Forall2 val_matches vals (map snd (spec_decode v bits)) /\
    map f_name (fields_of (cls_of v)) = map fst (spec_decode v bits) /\
    class_name (cls_of v) = variant_class v.
Proof.
  intros v bits Hlen Hv Hpad.
  destruct (layout_ok_inv _ _ (tables_match_spec v)) as (Hname & Htot & Herr).
  destruct (nominal_covers_disc v) as [H6 Hd].
  rewrite text_pad_zero_fields in Hpad.
  destruct (dec_all_match _ _ _ 0%nat bits Herr ltac:(lia) Hpad) as (vals & Hm & HF).
  exists vals. repeat split.
  - apply decode_bits_of_selects; try lia.
    + apply spec_variant_selects; [exact Hv|lia].
    + apply from_bitarray_of_dec_all. exact Hm.
  - unfold spec_decode. rewrite map_map. exact HF.
  - unfold spec_decode. rewrite map_map. exact (field_errors_names _ _ _ _ _ Herr).
  - exact Hname.
Qed.
