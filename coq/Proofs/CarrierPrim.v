(* Lemmas about the Python primitives of Prim/PyBytes.v and Prim/PyInt.v that the carrier theorem (C04) needs:
   bytes.split on a concatenation of separator-free pieces, strip of trailing white space, find, slicing and indexing
   at known positions, int() of one decimal digit, and "int() fails with ValueError only".
   Everything here is about the definitions of Prim/ as they are; nothing is re-defined. *)
From Coq Require Import ZArith List Bool Lia.
Require Import Prim.Exn Prim.PyBytes Prim.PyInt.
Import ListNotations.
Open Scope Z_scope.

(* ------------------------------------------------------------------------------------------------ *)
(* separator-free pieces                                                                             *)
Definition nosep (sep : Z) (l : list Z) : Prop := forallb (fun c => negb (c =? sep)) l = true.

Lemma nosep_nil : forall sep, nosep sep [].
Proof. reflexivity. Qed.

Lemma nosep_cons : forall sep c l, c <> sep -> nosep sep l -> nosep sep (c :: l).
Proof.
  intros sep c l Hc Hl. unfold nosep in *. cbn [forallb]. rewrite Hl.
  destruct (Z.eqb_spec c sep); [contradiction|reflexivity].
Qed.

Lemma nosep_app : forall sep a b, nosep sep a -> nosep sep b -> nosep sep (a ++ b).
Proof. intros sep a b Ha Hb. unfold nosep in *. now rewrite forallb_app, Ha, Hb. Qed.

Lemma nosep_inv : forall sep c l, nosep sep (c :: l) -> (c =? sep) = false /\ nosep sep l.
Proof.
  intros sep c l H. unfold nosep in H. cbn [forallb] in H. apply andb_prop in H. destruct H as [H1 H2].
  split; [now apply negb_true_iff in H1|exact H2].
Qed.

(* from a pointwise property *)
Lemma nosep_of_forallb : forall sep (P : Z -> bool) l,
  (forall c, P c = true -> c <> sep) -> forallb P l = true -> nosep sep l.
Proof.
  intros sep P l HP. induction l as [|c l IH]; intros H; [reflexivity|].
  cbn [forallb] in H. apply andb_prop in H. destruct H as [Hc Hl].
  apply nosep_cons; [now apply HP|now apply IH].
Qed.

(* ------------------------------------------------------------------------------------------------ *)
(* bytes.split                                                                                        *)
Lemma bsplit_nonempty : forall sep b, exists h t, bsplit sep b = h :: t.
Proof.
  intros sep b. induction b as [|c r IH]; cbn [bsplit]; [now eexists; eexists|].
  destruct (c =? sep); [now eexists; eexists|]. destruct IH as [h [t ->]]. now eexists; eexists.
Qed.

Lemma bsplit_nosep : forall sep a, nosep sep a -> bsplit sep a = [a].
Proof.
  intros sep a. induction a as [|c r IH]; intros H; [reflexivity|].
  apply nosep_inv in H. destruct H as [Hc Hr]. cbn [bsplit]. rewrite Hc, (IH Hr). reflexivity.
Qed.

Lemma bsplit_app : forall sep a b, nosep sep a -> bsplit sep (a ++ sep :: b) = a :: bsplit sep b.
Proof.
  intros sep a b. induction a as [|c r IH]; intros H.
  - cbn [app bsplit]. now rewrite Z.eqb_refl.
  - apply nosep_inv in H. destruct H as [Hc Hr]. cbn [app bsplit]. rewrite Hc, (IH Hr). reflexivity.
Qed.

Lemma bsplit_max_nonempty : forall sep b n, exists h t, bsplit_max sep b n = h :: t.
Proof.
  intros sep b. induction b as [|c r IH]; intros n; destruct n as [|n']; cbn [bsplit_max]; try (now eexists; eexists).
  destruct (c =? sep); [now eexists; eexists|]. destruct (IH (S n')) as [h [t ->]]. now eexists; eexists.
Qed.

(* ------------------------------------------------------------------------------------------------ *)
(* strip                                                                                              *)
Lemma lstrip_nonspace : forall c r, is_space c = false -> lstrip (c :: r) = c :: r.
Proof. intros c r H. cbn [lstrip]. now rewrite H. Qed.

Lemma rstrip_app_spaces : forall a ws, forallb is_space ws = true -> rstrip (a ++ ws) = rstrip a.
Proof.
  intros a ws H. induction a as [|c a IH].
  - cbn [app]. induction ws as [|w ws IHw]; [reflexivity|].
    cbn [forallb] in H. apply andb_prop in H. destruct H as [Hw Hws].
    cbn [rstrip]. rewrite (IHw Hws), Hw. reflexivity.
  - cbn [app rstrip]. rewrite IH. reflexivity.
Qed.

Lemma rstrip_last_nonspace : forall a c, is_space c = false -> rstrip (a ++ [c]) = a ++ [c].
Proof.
  intros a c H. induction a as [|d a IH].
  - cbn [app rstrip]. now rewrite H.
  - cbn [app rstrip]. rewrite IH. destruct (a ++ [c]) eqn:E; [|reflexivity].
    now destruct a.
Qed.

(* a text that starts and ends with a non-blank, followed by white space *)
Lemma strip_trailing : forall c body e ws,
  is_space c = false -> is_space e = false -> forallb is_space ws = true ->
  strip ((c :: body ++ [e]) ++ ws) = c :: body ++ [e].
Proof.
  intros c body e ws Hc He Hws. unfold strip. cbn [app]. rewrite lstrip_nonspace by exact Hc.
  change (c :: (body ++ [e]) ++ ws) with ((c :: body ++ [e]) ++ ws). rewrite rstrip_app_spaces by exact Hws.
  change (c :: body ++ [e]) with ((c :: body) ++ [e]). now apply rstrip_last_nonspace.
Qed.

(* ------------------------------------------------------------------------------------------------ *)
(* find                                                                                               *)
Lemma bfind_from_app : forall needle a b i, nosep needle a ->
  bfind_from needle (a ++ needle :: b) i = i + Z.of_nat (length a).
Proof.
  intros needle a b. induction a as [|c r IH]; intros i H.
  - cbn [app bfind_from length]. rewrite Z.eqb_refl. cbn. lia.
  - apply nosep_inv in H. destruct H as [Hc Hr]. cbn [app bfind_from]. rewrite Hc, (IH _ Hr).
    cbn [length]. lia.
Qed.

Lemma bfind_app : forall needle a b, nosep needle a -> bfind needle (a ++ needle :: b) = Z.of_nat (length a).
Proof. intros. unfold bfind. now rewrite bfind_from_app. Qed.

(* ------------------------------------------------------------------------------------------------ *)
(* slicing and indexing at known positions                                                            *)
Lemma py_slice_from : forall (A : Type) (l : list A) k, (k <= length l)%nat ->
  py_slice l (Some (Z.of_nat k)) None = skipn k l.
Proof.
  intros A l k H. unfold py_slice, norm_index.
  destruct (Z.ltb_spec (Z.of_nat k) 0); [lia|].
  rewrite Z.min_l by lia. rewrite Nat2Z.id.
  rewrite firstn_all2; [reflexivity|]. rewrite skipn_length. lia.
Qed.

Lemma py_slice_range : forall (A : Type) (l : list A) lo hi, (lo <= hi)%nat -> (hi <= length l)%nat ->
  py_slice l (Some (Z.of_nat lo)) (Some (Z.of_nat hi)) = firstn (hi - lo) (skipn lo l).
Proof.
  intros A l lo hi H1 H2. unfold py_slice, norm_index.
  destruct (Z.ltb_spec (Z.of_nat lo) 0); [lia|]. destruct (Z.ltb_spec (Z.of_nat hi) 0); [lia|].
  rewrite !Z.min_l by lia. rewrite Nat2Z.id. f_equal. lia.
Qed.

(* raw[1:] *)
Lemma py_slice_tail : forall (A : Type) (x : A) l, py_slice (x :: l) (Some 1) None = l.
Proof. intros. change 1 with (Z.of_nat 1). rewrite py_slice_from by (cbn [length]; lia). reflexivity. Qed.

(* (x :: a ++ y :: b)[1 : len a + 1] = a   and   (x :: a ++ y :: b)[len a + 2 :] = b *)
Lemma py_slice_inner : forall (A : Type) (x y : A) a b,
  py_slice (x :: a ++ y :: b) (Some 1) (Some (Z.of_nat (length a) + 1)) = a.
Proof.
  intros. change 1 with (Z.of_nat 1) at 1. replace (Z.of_nat (length a) + 1) with (Z.of_nat (S (length a))) by lia.
  rewrite py_slice_range; [| lia | cbn [length]; rewrite app_length; cbn [length]; lia].
  cbn [skipn]. replace (S (length a) - 1)%nat with (length a) by lia.
  rewrite firstn_app, Nat.sub_diag, firstn_all. cbn [firstn]. now rewrite app_nil_r.
Qed.

Lemma py_slice_after : forall (A : Type) (x y : A) a b,
  py_slice (x :: a ++ y :: b) (Some (Z.of_nat (length a) + 1 + 1)) None = b.
Proof.
  intros. replace (Z.of_nat (length a) + 1 + 1) with (Z.of_nat (S (length a + 1))) by lia.
  rewrite py_slice_from by (cbn [length]; rewrite app_length; cbn [length]; lia).
  cbn [skipn]. rewrite skipn_app. rewrite skipn_all2 by lia.
  replace (length a + 1 - length a)%nat with 1%nat by lia. reflexivity.
Qed.

Lemma py_index_0 : forall (A : Type) (x : A) l, py_index (x :: l) 0 = Ok x.
Proof.
  intros. unfold py_index. cbn [Z.ltb Z.compare].
  destruct (Z.leb_spec (Z.of_nat (length (x :: l))) 0) as [H|H]; [cbn [length] in H; lia|reflexivity].
Qed.

(* ------------------------------------------------------------------------------------------------ *)
(* int()                                                                                              *)
Definition dec_digit (n : nat) : Z := 48 + Z.of_nat n.

Lemma py_int_digit : forall n, (n <= 9)%nat -> py_int_bytes 10 [dec_digit n] = Ok (Z.of_nat n).
Proof.
  intros n H. do 10 (destruct n as [|n]; [reflexivity|]). lia.
Qed.

Lemma dec_digit_range : forall n, (n <= 9)%nat -> 48 <= dec_digit n <= 57.
Proof. intros n H. unfold dec_digit. lia. Qed.

(* int() of a byte string either succeeds or raises ValueError -- nothing else *)
Lemma py_int_bytes_outcome : forall base b,
  (exists v, py_int_bytes base b = Ok v) \/ py_int_bytes base b = Raise (Py ValueError).
Proof.
  intros base b. unfold py_int_bytes.
  repeat match goal with
         | |- context [match ?x with _ => _ end] =>
           match type of x with
           | _ => destruct x
           end
         | |- _ => solve [left; eexists; reflexivity | right; reflexivity]
         end.
Qed.
