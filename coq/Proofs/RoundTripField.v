(* kind_roundtrip: a table entry that implements a specification kind (field_impl, checked against the regenerated
   tables in Proofs/RoundTrip.v) carries every in-range value of that kind through
      create -> to_bitarray -> from_bitarray
   to its normalised value.  conv_roundtrip_* (exact arithmetic), turn, enumerations. *)
From Coq Require Import ZArith List Bool String Lia.
Require Import Prim.Exn Prim.Bits Gen.GenEnums Model.FieldTypes Gen.GenTables Gen.GenConv Gen.GenAlpha Model.Codec.
Require Import Spec.Layout Spec.RoundTripSpec Proofs.RoundTripBits Proofs.RoundTripLoops Proofs.RoundTripKinds.
Import ListNotations.
Open Scope Z_scope.
Open Scope exn_scope.

Local Notation len := (@List.length bool).

(* what create() stores for a supplied keyword argument *)
Definition create_given (f : field) (v : value) : M value :=
  u <- force_type f v ;; apply_opt_conv (f_attrs_conv f) u.

(* the number of bits a value is written with *)
Definition enc_len (k : kind) (ex : bool) (w : nat) (x : sval) : nat :=
  match k, x with
  | KT, SText s => if ex then (6 * List.length s)%nat else (6 * (w / 6))%nat
  | (KD | KX), SBytes bs => if (List.length bs =? ceil8 w)%nat then w else (8 * List.length bs)%nat
  | _, _ => w
  end.

(* the outcome of one field *)
Definition field_rt (f : field) (v : value) (k : kind) (ex : bool) (x : sval) : Prop :=
  exists cv b,
    create_given f v = Ok cv /\ bits_of_field f cv = Ok b /\
    len b = enc_len k ex (f_width f) x /\ (len b <= f_width f)%nat /\
    (b <> [] -> exists r0 r, decode_field f b = Ok r0 /\ apply_opt_conv (f_attrs_conv f) r0 = Ok r /\
                             denotes r (normalise_kind k x)).

(* ------------------------------------------------------------------------------------------------ *)
(* inversion of the table predicates                                                                  *)

Lemma is_dtype_inv a b : is_dtype a b = true -> a = b.
Proof. destruct a, b; cbn; congruence. Qed.
Lemma conv_none_inv c : conv_none c = true -> c = None.
Proof. destruct c; cbn; congruence. Qed.
Lemma conv_named_inv c n : conv_named c n = true -> c = Some (CNamed n).
Proof. destruct c as [[m| |]|]; cbn; try congruence. intros H. apply String.eqb_eq in H. congruence. Qed.
Lemma plain_inv f : plain f = true -> f_from f = None /\ f_to f = None /\ f_attrs_conv f = None.
Proof.
  unfold plain. intros H. apply andb_prop in H as [H H3]. apply andb_prop in H as [H1 H2].
  auto using conv_none_inv.
Qed.
Lemma conv_pair_inv f a b : conv_pair f a b = true ->
  f_from f = Some (CNamed a) /\ f_to f = Some (CNamed b) /\ f_attrs_conv f = None.
Proof.
  unfold conv_pair. intros H. apply andb_prop in H as [H H3]. apply andb_prop in H as [H1 H2].
  auto using conv_none_inv, conv_named_inv.
Qed.
Lemma enum_eqb_eq a b : enum_eqb a b = true -> a = b.
Proof. destruct a, b; cbn; congruence. Qed.

Lemma zmem_in c l : zmem_ c l = true -> In c l.
Proof. unfold zmem_. intros H. apply existsb_exists in H as (y & Hy & E). apply Z.eqb_eq in E. subst. exact Hy. Qed.

(* ------------------------------------------------------------------------------------------------ *)
(* integers and booleans                                                                              *)

Lemma rt_int f (s : bool) c : f_dtype f = DInt -> f_signed f = s ->
  (f_from f = None \/ f_from f = Some (CNamed "from_mmsi"%string)) -> (0 < f_width f)%nat ->
  (if s then smin (f_width f) <= c <= smax (f_width f) else 0 <= c <= umax (f_width f)) ->
  exists b, bits_of_field f (VInt c) = Ok b /\ len b = f_width f /\ b <> [] /\
            (if s then sbits b else ubits b) = c.
Proof.
  intros Hd Hs Hf Hw Hc. destruct (pack_code s (f_width f) c Hw Hc) as (b & E & L & N & V).
  exists b. repeat split; try assumption.
  unfold bits_of_field, encode_field.
  assert (apply_opt_conv (f_from f) (VInt c) = Ok (VInt c)) as ->.
  { destruct Hf as [-> | ->]; [reflexivity|]. cbn [apply_opt_conv].
    rewrite (apply_named _ _ _ (proj1 conv_table_entries)). reflexivity. }
  cbn [bind]. rewrite Hd. cbn [value_as_int bind]. rewrite Hs, E. cbn [bind].
  rewrite firstn_exact by assumption. reflexivity.
Qed.

Lemma kind_U ex f x : field_impl KU ex f = true -> (0 < f_width f)%nat ->
  in_range_kind KU (f_width f) false x = true -> field_rt f (inj x) KU ex x.
Proof.
  cbn [field_impl]. intros H Hw Hr.
  apply andb_prop in H as [H Ha]. apply andb_prop in H as [H Ht]. apply andb_prop in H as [H Hf].
  apply andb_prop in H as [Hd Hs]. apply is_dtype_inv in Hd. apply negb_true_iff in Hs.
  apply conv_none_inv in Ha, Ht.
  assert (f_from f = None \/ f_from f = Some (CNamed "from_mmsi"%string)) as Hf'.
  { apply orb_prop in Hf as [Hf|Hf]; [left; apply conv_none_inv|right; apply conv_named_inv]; assumption. }
  destruct x; cbn [in_range_kind] in Hr; try discriminate.
  apply andb_prop in Hr as [R1 R2]. apply Z.leb_le in R1, R2.
  destruct (rt_int f false z Hd Hs Hf' Hw (conj R1 R2)) as (b & E & L & N & V).
  exists (VInt z), b. cbn [inj]. unfold create_given, force_type. rewrite Hd, Ha. cbn [bind apply_opt_conv enc_len].
  repeat split; try assumption; try lia.
  intros _. exists (VInt z), (VInt z). rewrite decode_int by assumption. rewrite Hs, Ht, V. cbn. auto.
Qed.

Lemma kind_B ex f x : field_impl KB ex f = true -> (0 < f_width f)%nat ->
  in_range_kind KB (f_width f) false x = true -> field_rt f (inj x) KB ex x.
Proof.
  cbn [field_impl]. intros H Hw Hr.
  apply andb_prop in H as [H Hp]. apply andb_prop in H as [Hd Hs].
  apply is_dtype_inv in Hd. apply negb_true_iff in Hs. apply plain_inv in Hp as (Hf & Ht & Ha).
  assert (exists bv, create_given f (inj x) = Ok (VBool bv) /\ normalise_kind KB x = SBool bv) as (bv & Hc & Hn).
  { destruct x; cbn [in_range_kind] in Hr; try discriminate; cbn [inj]; unfold create_given, force_type; rewrite Hd, Ha.
    - exists (negb (z =? 0)). split; reflexivity.
    - exists b. split; reflexivity. }
  assert (0 <= b2z bv <= umax (f_width f)) as Hb.
  { unfold umax. assert (2 ^ 1 <= 2 ^ Z.of_nat (f_width f)) by (apply pow2_mono; lia).
    change (2 ^ 1) with 2 in *. destruct bv; cbn; lia. }
  destruct (pack_code false (f_width f) (b2z bv) Hw Hb) as (b & E & L & N & V).
  exists (VBool bv), b. split; [exact Hc|]. split.
  { unfold bits_of_field, encode_field. rewrite Hf. cbn [apply_opt_conv bind]. rewrite Hd. cbn [value_as_int bind].
    rewrite Hs, E. cbn [bind]. rewrite firstn_exact by assumption. reflexivity. }
  split; [rewrite L; destruct x; reflexivity|]. split; [lia|].
  intros _. exists (VBool bv), (VBool bv). rewrite decode_bool by assumption. rewrite Ht, Ha, V, Hn.
  cbn. destruct bv; auto.
Qed.

(* ------------------------------------------------------------------------------------------------ *)
(* scaled quantities: the common skeleton, then conv_roundtrip per converter pair                      *)

Lemma rt_float f x n d val code y : f_dtype f = DFloat -> f_attrs_conv f = None -> (0 < f_width f)%nat ->
  real_of x = Some (n, d) ->
  (forall d', Zpos d' = d -> apply_opt_conv (f_from f) (VFloat n d') = Ok val) ->
  value_as_int val = Ok code ->
  (if f_signed f then smin (f_width f) <= code <= smax (f_width f) else 0 <= code <= umax (f_width f)) ->
  apply_opt_conv (f_to f) (VFloat code 1) = Ok y ->
  exists cv b, create_given f (inj x) = Ok cv /\ bits_of_field f cv = Ok b /\ len b = f_width f /\ b <> [] /\
               decode_field f b = Ok y.
Proof.
  intros Hd Ha Hw Hr Hfrom Hval Hc Hto.
  destruct (force_real f x n d Hd Hr) as (n' & d' & Hforce & -> & Hd').
  destruct (pack_code (f_signed f) (f_width f) code Hw Hc) as (b & E & L & N & V).
  exists (VFloat n d'), b. unfold create_given. rewrite Hforce, Ha. cbn [bind apply_opt_conv].
  split; [reflexivity|]. split.
  { apply (bits_of_float f _ val code); try assumption; try discriminate. apply Hfrom. exact Hd'. }
  repeat split; try assumption. rewrite decode_float by assumption. rewrite V. exact Hto.
Qed.

Lemma real_of_pos x n d : real_of x = Some (n, d) -> 0 < d.
Proof.
  destruct x; cbn; try discriminate.
  - intros H. injection H as _ <-. lia.
  - destruct (Z.ltb_spec 0 den) as [Hp|]; [|discriminate]. intros H. injection H as _ <-. assumption.
Qed.

Lemma scaled_between_inv lo hi s n d : scaled_between lo hi s n d = true -> lo * d <= n * s <= hi * d.
Proof. unfold scaled_between. intros H. apply andb_prop in H as [A B]. apply Z.leb_le in A, B. lia. Qed.

Lemma smin_smax w : (0 < w)%nat -> smin w <= 0 <= smax w.
Proof.
  intros Hw. unfold smin, smax. assert (0 < 2 ^ (Z.of_nat w - 1)) by (apply Z.pow_pos_nonneg; lia). lia.
Qed.
Lemma umax_nonneg w : 0 <= umax w.
Proof. unfold umax. assert (0 < 2 ^ Z.of_nat w) by (apply Z.pow_pos_nonneg; lia). lia. Qed.

(* truncating converters: v * 10.0 (from_speed) / float(v) * 10.0 (from_10th), then int(); back v / 10.0 *)
Lemma kind_trunc10 k ex f x : (k = KU10 \/ k = KI10) -> field_impl k ex f = true -> (0 < f_width f)%nat ->
  in_range_kind k (f_width f) false x = true -> field_rt f (inj x) k ex x.
Proof.
  intros Hk H Hw Hr.
  assert (f_dtype f = DFloat /\ f_signed f = (match k with KI10 => true | _ => false end) /\ f_attrs_conv f = None /\
          (exists sh, (sh = ShMul (mkDec 10 0) \/ sh = ShFloatMul (mkDec 10 0)) /\
                      forall v, apply_opt_conv (f_from f) v = apply_shape sh v) /\
          (forall v, apply_opt_conv (f_to f) v = apply_shape (ShDiv (mkDec 10 0)) v)) as (Hd & Hs & Ha & (sh & Hsh & Hf) & Ht).
  { destruct conv_table_entries as (_ & T1 & T2 & T3 & T4 & _).
    destruct Hk as [-> | ->]; cbn [field_impl] in H.
    - apply andb_prop in H as [H Hp]. apply andb_prop in H as [Hd Hs].
      apply is_dtype_inv in Hd. apply negb_true_iff in Hs. repeat split; try assumption.
      + apply orb_prop in Hp as [Hp|Hp]; apply conv_pair_inv in Hp as (_ & _ & Ha); exact Ha.
      + apply orb_prop in Hp as [Hp|Hp]; apply conv_pair_inv in Hp as (Hf & _ & _); rewrite Hf; cbn [apply_opt_conv];
          eexists; (split; [|intros v; apply apply_named; eassumption]); auto.
      + apply orb_prop in Hp as [Hp|Hp]; apply conv_pair_inv in Hp as (_ & Ht & _); rewrite Ht; intros v;
          cbn [apply_opt_conv]; apply apply_named; assumption.
    - apply andb_prop in H as [H Hp]. apply andb_prop in H as [Hd Hs]. apply is_dtype_inv in Hd.
      apply conv_pair_inv in Hp as (Hf & Ht & Ha). repeat split; try assumption.
      + rewrite Hf. eexists; split; [right; reflexivity|]. intros v. cbn [apply_opt_conv]. apply apply_named. assumption.
      + rewrite Ht. intros v. cbn [apply_opt_conv]. apply apply_named. assumption. }
  assert (exists n d, real_of x = Some (n, d) /\
                      (if f_signed f then smin (f_width f) else 0) * d <= n * 10
                      <= (if f_signed f then smax (f_width f) else umax (f_width f)) * d) as (n & d & Hx & Hb).
  { rewrite Hs. destruct Hk as [-> | ->]; cbn [in_range_kind] in Hr; destruct (real_of x) as [[n d]|]; try discriminate;
      exists n, d; (split; [reflexivity|]); apply scaled_between_inv in Hr; exact Hr. }
  pose proof (real_of_pos x n d Hx) as Hdp.
  assert (normalise_kind k x = SFrac (code_trunc 10 n d) 10) as Hn.
  { destruct Hk as [-> | ->]; cbn [normalise_kind]; unfold frac_or; rewrite Hx; reflexivity. }
  destruct (rt_float f x n d (mkfloat (n * 10) (d * 1)) (Z.quot (n * 10) d) (mkfloat (Z.quot (n * 10) d) 10)
              Hd Ha Hw Hx) as (cv & b & C & E & L & N & D).
  - intros d' <-. rewrite Hf. destruct Hsh as [-> | ->]; reflexivity.
  - rewrite value_as_int_mkfloat by lia. f_equal. f_equal. lia.
  - pose proof (smin_smax (f_width f) Hw). pose proof (umax_nonneg (f_width f)).
    destruct (f_signed f); apply quot_between; lia.
  - rewrite Ht. cbn. rewrite !Z.mul_1_r. reflexivity.
  - exists cv, b. split; [exact C|]. split; [exact E|].
    split; [rewrite L; destruct Hk as [-> | ->]; destruct x; reflexivity|]. split; [lia|].
    intros _. exists (mkfloat (Z.quot (n * 10) d) 10), (mkfloat (Z.quot (n * 10) d) 10).
    rewrite Ha, Hn. split; [exact D|]. split; [reflexivity|]. apply mkfloat_denotes. lia.
Qed.

(* an unsigned integer reported as a real (no converters; int() truncates) *)
Lemma kind_F1 ex f x : field_impl KF1 ex f = true -> (0 < f_width f)%nat ->
  in_range_kind KF1 (f_width f) false x = true -> field_rt f (inj x) KF1 ex x.
Proof.
  cbn [field_impl]. intros H Hw Hr.
  apply andb_prop in H as [H Hp]. apply andb_prop in H as [Hd Hs].
  apply is_dtype_inv in Hd. apply negb_true_iff in Hs. apply plain_inv in Hp as (Hf & Ht & Ha).
  cbn [in_range_kind] in Hr. destruct (real_of x) as [[n d]|] eqn:Hx; [|discriminate].
  apply scaled_between_inv in Hr. pose proof (real_of_pos x n d Hx) as Hdp.
  destruct (rt_float f x n d (VFloat n (Z.to_pos d)) (Z.quot n d) (VFloat (Z.quot n d) 1) Hd Ha Hw Hx)
    as (cv & b & C & E & L & N & D).
  - intros d' Hd'. rewrite Hf. cbn. f_equal. f_equal. rewrite <- Hd'. reflexivity.
  - cbn. unfold trunc_div. rewrite Z2Pos.id by assumption. reflexivity.
  - rewrite Hs. pose proof (umax_nonneg (f_width f)). apply quot_between; lia.
  - rewrite Ht. reflexivity.
  - exists cv, b. split; [exact C|]. split; [exact E|]. split; [rewrite L; destruct x; reflexivity|]. split; [lia|].
    intros _. exists (VFloat (Z.quot n d) 1), (VFloat (Z.quot n d) 1). rewrite Ha. split; [exact D|]. split; [reflexivity|].
    cbn [normalise_kind]. unfold frac_or. rewrite Hx. cbn [denotes]. unfold code_trunc. split; [lia|].
    rewrite !Z.mul_1_r. reflexivity.
Qed.

Lemma shape_round_mul c n d :
  apply_shape (ShRoundFloatMul (mkDec c 0)) (VFloat n d) = Ok (VInt (rhe (n * c) (Zpos d))).
Proof.
  unfold apply_shape, as_frac, dec_num_den, pow10. cbn [dec_num dec_exp]. change (10 ^ Z.of_nat 0) with 1.
  rewrite Z.mul_1_r. reflexivity.
Qed.

Lemma shape_round_div c code : 0 < c ->
  apply_shape (ShRoundFloatDiv (mkDec c 0) 6) (VFloat code 1) = Ok (mkfloat (rhe (code * 1000000) c) 1000000).
Proof.
  intros Hc. unfold apply_shape, as_frac, dec_num_den, pow10. cbn [dec_num dec_exp]. change (10 ^ Z.of_nat 0) with 1.
  destruct (Z.leb_spec c 0); [lia|]. change (6 <? 0) with false. cbn iota.
  change (10 ^ 6) with 1000000. rewrite !Z.mul_1_r, Z.mul_1_l. reflexivity.
Qed.

(* positions: round(float(v) * scale) out, round(float(raw) / scale, 6) back *)
Lemma kind_LL k scale ex f x :
  (k = KLL /\ scale = 600000 \/ k = KLL600 /\ scale = 600) -> field_impl k ex f = true -> (0 < f_width f)%nat ->
  in_range_kind k (f_width f) false x = true -> field_rt f (inj x) k ex x.
Proof.
  intros Hk H Hw Hr.
  assert (f_dtype f = DFloat /\ f_signed f = true /\ f_attrs_conv f = None /\
          (forall v, apply_opt_conv (f_from f) v = apply_shape (ShRoundFloatMul (mkDec scale 0)) v) /\
          (forall v, apply_opt_conv (f_to f) v = apply_shape (ShRoundFloatDiv (mkDec scale 0) 6) v)) as (Hd & Hs & Ha & Hf & Ht).
  { destruct conv_table_entries as (_ & _ & _ & _ & _ & T1 & T2 & T3 & T4 & _).
    destruct Hk as [(-> & ->)|(-> & ->)]; cbn [field_impl] in H;
      apply andb_prop in H as [H Hp]; apply andb_prop in H as [Hd Hs]; apply is_dtype_inv in Hd;
      apply conv_pair_inv in Hp as (Hf & Ht & Ha); repeat split; try assumption;
      try (rewrite Hf; intros v; cbn [apply_opt_conv]; apply apply_named; assumption);
      try (rewrite Ht; intros v; cbn [apply_opt_conv]; apply apply_named; assumption). }
  assert (0 < scale) as Hsc by (destruct Hk as [(_ & ->)|(_ & ->)]; lia).
  assert (exists n d, real_of x = Some (n, d) /\ smin (f_width f) * d <= n * scale <= smax (f_width f) * d)
    as (n & d & Hx & Hb).
  { destruct Hk as [(-> & ->)|(-> & ->)]; cbn [in_range_kind] in Hr; destruct (real_of x) as [[n d]|]; try discriminate;
      exists n, d; (split; [reflexivity|]); apply scaled_between_inv in Hr; exact Hr. }
  pose proof (real_of_pos x n d Hx) as Hdp.
  set (code := rhe (n * scale) d).
  assert (normalise_kind k x = SFrac (round_half_even (code * 1000000) scale) 1000000) as Hn.
  { destruct Hk as [(-> & ->)|(-> & ->)]; cbn [normalise_kind]; unfold frac_or; rewrite Hx; reflexivity. }
  destruct (rt_float f x n d (VInt code) code (mkfloat (rhe (code * 1000000) scale) 1000000)
              Hd Ha Hw Hx) as (cv & b & C & E & L & N & D).
  - intros d' <-. rewrite Hf. unfold code. apply shape_round_mul.
  - reflexivity.
  - rewrite Hs. unfold code. apply rhe_between; lia.
  - rewrite Ht. apply shape_round_div. exact Hsc.
  - exists cv, b. split; [exact C|]. split; [exact E|].
    split; [rewrite L; destruct Hk as [(-> & _)|(-> & _)]; destruct x; reflexivity|]. split; [lia|].
    intros _. eexists _, _. rewrite Ha, Hn. split; [exact D|]. split; [reflexivity|].
    rewrite rhe_is_round_half_even. apply mkfloat_denotes. lia.
Qed.

(* ------------------------------------------------------------------------------------------------ *)
(* rate of turn                                                                                       *)

Lemma round_sqrt_nearest a b : round_sqrt a b = nearest_sqrt a b.
Proof. unfold round_sqrt, nearest_sqrt. rewrite <- !Z.mul_assoc. reflexivity. Qed.

Lemma nearest_sqrt_nonneg a b : 0 <= nearest_sqrt a b.
Proof.
  unfold nearest_sqrt. pose proof (Z.sqrt_nonneg (a / b)).
  destruct (_ <? _); [lia|]. destruct (_ <? _); [lia|]. destruct (Z.even _); lia.
Qed.

Lemma rot_code_zero d : 0 < d -> rot_code 0 d = 0.
Proof.
  intros Hd. unfold rot_code, nearest_sqrt. change (4733 * 4733 * Z.abs 0) with 0.
  rewrite Z.div_0_l by lia. change (Z.sqrt 0) with 0. change (4 * 0) with 0.
  destruct (Z.ltb_spec 0 (1000 * 1000 * d * ((2 * 0 + 1) * (2 * 0 + 1)))); [reflexivity|lia].
Qed.

Lemma to_turn_spec c : Z.abs c <= 126 ->
  exists y, apply_shape (ShToTurn 127 128 (mkDec 4733 3)) (VFloat c 1) = Ok y /\ denotes y (spec_turn c).
Proof.
  intros Hc. cbn [apply_shape as_frac]. unfold spec_turn, zabs_frac_eq.
  destruct (Z.eqb_spec c 0) as [->|NZ]; [eexists; split; [reflexivity|cbn; lia]|].
  destruct (Z.eqb_spec (Z.abs c) (127 * 1)); [lia|]. destruct (Z.eqb_spec (Z.abs c) (128 * 1)); [lia|].
  destruct (Z.eqb_spec c 127); [lia|]. destruct (Z.eqb_spec c (-127)); [lia|]. destruct (Z.eqb_spec c (-128)); [lia|].
  cbn. eexists; split; [reflexivity|]. unfold sgn. rewrite rhe_is_round_half_even. cbn [denotes]. split; [lia|].
  replace (c * c * 1000 * 1000) with (c * c * 1000000) by ring. reflexivity.
Qed.

Lemma kind_ROT ex f x : field_impl KROT ex f = true ->
  in_range_kind KROT (f_width f) false x = true -> field_rt f (inj x) KROT ex x.
Proof.
  cbn [field_impl]. intros H Hr.
  apply andb_prop in H as [H Hw8]. apply andb_prop in H as [H Hp]. apply andb_prop in H as [Hd Hs].
  apply is_dtype_inv in Hd. apply Nat.eqb_eq in Hw8. apply conv_pair_inv in Hp as (Hf & Ht & Ha).
  destruct conv_table_entries as (_ & _ & _ & _ & _ & _ & _ & _ & _ & T1 & T2).
  assert (forall v, apply_opt_conv (f_from f) v = apply_shape (ShFromTurn 127 128 (mkDec 4733 3)) v) as Hfrom.
  { intros v. rewrite Hf. cbn [apply_opt_conv]. apply apply_named. assumption. }
  assert (forall v, apply_opt_conv (f_to f) v = apply_shape (ShToTurn 127 128 (mkDec 4733 3)) v) as Hto.
  { intros v. rewrite Ht. cbn [apply_opt_conv]. apply apply_named. assumption. }
  assert (0 < f_width f)%nat as Hw by lia.
  (* the code that is sent, and the value it is decoded to *)
  assert (exists cv code y, create_given f (inj x) = Ok cv /\ cv <> VNone /\
            apply_shape (ShFromTurn 127 128 (mkDec 4733 3)) cv = Ok (VInt code) /\ -128 <= code <= 127 /\
            apply_shape (ShToTurn 127 128 (mkDec 4733 3)) (VFloat code 1) = Ok y /\
            denotes y (normalise_kind KROT x)) as (cv & code & y & C & NN & F & R & T & Dn).
  { cbn [in_range_kind] in Hr. destruct x as [z|bb|n d|s|bs|e c df|c].
    6: discriminate. 4: discriminate. 4: discriminate. 2: discriminate.
    3: { (* a member of TurnRate *)
      exists (VTurn c), c. unfold create_given, force_type. cbn [inj]. rewrite Hd, Ha.
      apply orb_prop in Hr as [Hr|Hr]; [apply orb_prop in Hr as [Hr|Hr]|]; apply Z.eqb_eq in Hr; subst c;
        eexists; (split; [reflexivity|]); (split; [discriminate|]); (split; [reflexivity|]); (split; [lia|]);
        (split; [vm_compute; reflexivity|]); reflexivity. }
    all: cbn [real_of] in Hr.
    - (* an integer number of degrees per minute *)
      apply andb_prop in Hr as [Hr R3]. apply andb_prop in Hr as [R1 R2].
      apply negb_true_iff in R1, R2. apply Z.leb_le in R3.
      destruct (to_turn_spec (rot_code z 1) R3) as (y & Ty & Dy).
      exists (VFloat z 1), (rot_code z 1), y. unfold create_given, force_type. cbn [inj]. rewrite Hd, Ha. cbn [bind apply_opt_conv].
      split; [reflexivity|]. split; [discriminate|].
      assert (apply_shape (ShFromTurn 127 128 (mkDec 4733 3)) (VFloat z 1) = Ok (VInt (rot_code z 1))) as EF.
      { cbn [apply_shape as_frac]. unfold abs_is in R1, R2. unfold zabs_frac_eq. rewrite R1, R2. cbn [orb].
        destruct (Z.eqb_spec z 0) as [->|NZ]; [reflexivity|].
        cbn. rewrite round_sqrt_nearest. unfold rot_code, sgn. repeat f_equal; lia. }
      split; [exact EF|]. split; [lia|]. split; [exact Ty|].
      cbn [normalise_kind]. unfold frac_or. cbn [real_of]. exact Dy.
    - (* a real *)
      destruct (Z.ltb_spec 0 d) as [Hdp|]; [|discriminate].
      apply andb_prop in Hr as [Hr R3]. apply andb_prop in Hr as [R1 R2].
      apply negb_true_iff in R1, R2. apply Z.leb_le in R3.
      destruct (to_turn_spec (rot_code n d) R3) as (y & Ty & Dy).
      exists (VFloat n (Z.to_pos d)), (rot_code n d), y. unfold create_given, force_type. cbn [inj]. rewrite Hd, Ha.
      cbn [bind apply_opt_conv].
      split; [reflexivity|]. split; [discriminate|].
      assert (apply_shape (ShFromTurn 127 128 (mkDec 4733 3)) (VFloat n (Z.to_pos d)) = Ok (VInt (rot_code n d))) as EF.
      { cbn [apply_shape as_frac]. rewrite Z2Pos.id by assumption.
        unfold abs_is in R1, R2. unfold zabs_frac_eq. rewrite R1, R2. cbn [orb].
        destruct (Z.eqb_spec n 0) as [->|NZ].
        - rewrite rot_code_zero by assumption. reflexivity.
        - cbn. rewrite round_sqrt_nearest. unfold rot_code, sgn. repeat f_equal; lia. }
      split; [exact EF|]. split; [lia|]. split; [exact Ty|].
      cbn [normalise_kind]. unfold frac_or. cbn [real_of]. destruct (Z.ltb_spec 0 d); [|lia]. exact Dy. }
  assert (smin (f_width f) <= code <= smax (f_width f)) as Hc.
  { rewrite Hw8. unfold smin, smax. cbn. lia. }
  destruct (pack_code true (f_width f) code Hw Hc) as (b & E & L & N & V).
  exists cv, b. split; [exact C|]. split.
  { apply (bits_of_float f cv (VInt code) code); try assumption; try reflexivity.
    - rewrite Hfrom. exact F.
    - rewrite Hs. exact E. }
  split; [rewrite L; destruct x; reflexivity|]. split; [lia|].
  intros _. exists y, y. rewrite decode_float by assumption. rewrite Hs, V, Hto, Ha. auto.
Qed.

(* ------------------------------------------------------------------------------------------------ *)
(* text and binary data                                                                               *)

Lemma kind_T ex vl f x : field_impl KT ex f = true ->
  in_range_kind KT (f_width f) vl x = true -> field_rt f (inj x) KT ex x.
Proof.
  cbn [field_impl]. intros H Hr.
  apply andb_prop in H as [H Hv]. apply andb_prop in H as [Hd Hp].
  apply is_dtype_inv in Hd. apply plain_inv in Hp as (Hf & Ht & Ha). apply eqb_prop in Hv.
  destruct x; cbn [in_range_kind] in Hr; try discriminate.
  apply andb_prop in Hr as [Hs Hl]. apply Nat.leb_le in Hl.
  destruct (text_roundtrip s (f_width f) (negb (f_varlen f)) Hs Hl) as (b & E & L & D).
  assert (len b <= f_width f)%nat as Hle.
  { pose proof (Nat.div_mod (f_width f) 6 ltac:(lia)). rewrite L. destruct (negb (f_varlen f)); lia. }
  exists (VStr s), b. cbn [inj]. unfold create_given, force_type. rewrite Hd, Ha. cbn [bind apply_opt_conv].
  split; [reflexivity|]. split.
  { unfold bits_of_field, encode_field. rewrite Hf. cbn [apply_opt_conv bind]. rewrite Hd, E. cbn [bind].
    rewrite firstn_all2 by lia. reflexivity. }
  split; [rewrite L, Hv; cbn [enc_len]; destruct ex; reflexivity|]. split; [exact Hle|].
  intros _. exists (VStr (norm_text s)), (VStr (norm_text s)).
  unfold decode_field. rewrite Hd, Ht, D. cbn. auto.
Qed.

Lemma kind_bytes k ex vl f x : (k = KD \/ k = KX) -> field_impl k ex f = true -> (0 < f_width f)%nat ->
  in_range_kind k (f_width f) vl x = true -> x <> SBytes [] -> field_rt f (inj x) k ex x.
Proof.
  intros Hk H Hw Hr Hne.
  assert (f_dtype f = DBytes /\ f_from f = None /\ f_to f = None /\ f_attrs_conv f = None) as (Hd & Hf & Ht & Ha).
  { destruct Hk as [-> | ->]; cbn [field_impl] in H; apply andb_prop in H as [Hd Hp];
      apply is_dtype_inv in Hd; apply plain_inv in Hp; tauto. }
  assert (exists bs, x = SBytes bs /\ forallb byte_ok bs = true /\
            ((List.length bs = ceil8 (f_width f) /\ pad_bits_zero (f_width f) bs = true) \/
             (List.length bs <= f_width f / 8)%nat)) as (bs & -> & Hok & Hcase).
  { destruct Hk as [-> | ->]; destruct x; cbn [in_range_kind] in Hr; try discriminate;
      exists b; (split; [reflexivity|]); apply andb_prop in Hr as [Hok Hc]; (split; [exact Hok|]);
      apply orb_prop in Hc as [Hc|Hc]; apply andb_prop in Hc as [A B];
      [left; split; [apply Nat.eqb_eq|]; assumption | right; apply Nat.leb_le; assumption
      |left; split; [apply Nat.eqb_eq|]; assumption | right; apply Nat.leb_le; assumption]. }
  assert (bs <> []) as Hbs by congruence.
  destruct (bytes_roundtrip (f_width f) bs vl Hw Hbs Hok Hcase) as (Hle & Hnn & Hrt & Hfull & Hshort).
  set (b := firstn (f_width f) (bytes2bits bs (repeat false (f_width f)))) in *.
  exists (VBytes bs), b. cbn [inj]. unfold create_given, force_type. rewrite Hd, Ha. cbn [bind apply_opt_conv].
  split; [reflexivity|]. split.
  { unfold bits_of_field, encode_field. rewrite Hf. cbn [apply_opt_conv bind]. rewrite Hd. reflexivity. }
  split.
  { assert (enc_len k ex (f_width f) (SBytes bs)
            = if (List.length bs =? ceil8 (f_width f))%nat then f_width f else (8 * List.length bs)%nat) as ->
      by (destruct Hk as [-> | ->]; reflexivity).
    destruct (Nat.eqb_spec (List.length bs) (ceil8 (f_width f))); auto. }
  split; [exact Hle|].
  intros _. exists (VBytes bs), (VBytes bs). unfold decode_field. rewrite Hd, Ht, Hrt.
  split; [reflexivity|]. split; [reflexivity|]. destruct Hk as [-> | ->]; reflexivity.
Qed.

(* ------------------------------------------------------------------------------------------------ *)
(* enumerations                                                                                       *)

Definition all_senums : list senum :=
  [SE_NavigationStatus; SE_ManeuverIndicator; SE_EpfdType; SE_ShipType; SE_NavAid; SE_StationType; SE_TransmitMode;
   SE_StationIntervals].

(* every code to which the standard gives a meaning is a member of the library's enumeration (regenerated) *)
Lemma defined_codes_checked :
  forallb (fun e => forallb (fun c => match enum_ctor (enum_of_senum e) c with
                                      | Ok m => (m =? c) && (0 <=? c)
                                      | Raise _ => false
                                      end) (senum_defined e)) all_senums = true.
Proof. vm_compute. reflexivity. Qed.

Lemma defined_is_member e c : zmem_ c (senum_defined e) = true -> enum_ctor (enum_of_senum e) c = Ok c /\ 0 <= c.
Proof.
  intros H. apply zmem_in in H. pose proof defined_codes_checked as K. rewrite forallb_forall in K.
  assert (In e all_senums) as He by (destruct e; cbn; tauto).
  specialize (K e He). rewrite forallb_forall in K. specialize (K c H).
  destruct (enum_ctor (enum_of_senum e) c) as [m|]; [|discriminate].
  apply andb_prop in K as [K1 K2]. apply Z.eqb_eq in K1. apply Z.leb_le in K2. subst. auto.
Qed.

Lemma senum_eqb_eq a b : senum_eqb a b = true -> a = b.
Proof. destruct a, b; cbn; congruence. Qed.

Lemma kind_E e ex f x : field_impl (KE e) ex f = true -> (0 < f_width f)%nat ->
  in_range_kind (KE e) (f_width f) false x = true -> field_rt f (inj x) (KE e) ex x.
Proof.
  cbn [field_impl]. intros H Hw Hr.
  apply andb_prop in H as [H Hst]. apply andb_prop in H as [Hd Hs].
  apply is_dtype_inv in Hd. apply negb_true_iff in Hs.
  set (E := enum_of_senum e) in *.
  (* the supplied value is the member with code c, as an int or as the member itself *)
  assert (exists c v, inj x = v /\ (v = VInt c \/ v = VEnum E c) /\ zmem_ c (senum_defined e) = true /\ c <= umax (f_width f)
                      /\ normalise_kind (KE e) x = SEnum e c true) as (c & v & Hv & Hvc & Hm & Hc & Hn).
  { destruct x; cbn [in_range_kind] in Hr; try discriminate.
    - apply andb_prop in Hr as [A B]. apply Z.leb_le in B. exists z, (VInt z). cbn. auto.
    - apply andb_prop in Hr as [A B]. apply andb_prop in A as [A0 A]. apply Z.leb_le in B.
      apply senum_eqb_eq in A0. subst e0. exists code, (VEnum E code). cbn. auto. }
  destruct (defined_is_member e c Hm) as (Hctor & Hc0). fold E in Hctor.
  assert (enum_of_value E v = Ok (VEnum E c)) as Hev.
  { destruct Hvc as [-> | ->]; cbn [enum_of_value]; rewrite Hctor; reflexivity. }
  assert (force_type f v = Ok v) as Hforce.
  { unfold force_type. rewrite Hd. destruct Hvc as [-> | ->]; reflexivity. }
  assert (v <> VNone) as Hnn by (destruct Hvc as [-> | ->]; discriminate).
  destruct (pack_code false (f_width f) c Hw (conj Hc0 Hc)) as (b & Eb & L & N & V).
  unfold enum_style in Hst.
  destruct (f_from f) as [[nm|a|a]|] eqn:Hf; destruct (f_to f) as [[nm'|a'|a']|] eqn:Ht;
    destruct (f_attrs_conv f) as [[nm''|a''|a'']|] eqn:Ha; try discriminate.
  - (* from_value / from_value *)
    apply andb_prop in Hst as [A B]. apply enum_eqb_eq in A, B. subst a a'.
    exists v, b. unfold create_given. rewrite Hv, Hforce, Ha. cbn [bind apply_opt_conv].
    split; [reflexivity|]. split.
    { unfold bits_of_field, encode_field. destruct v; try congruence; rewrite Hf; cbn [apply_opt_conv apply_conv];
        rewrite Hev; cbn [bind]; rewrite Hd; cbn [value_as_int bind]; rewrite Hs, Eb; cbn [bind];
        rewrite firstn_exact by assumption; reflexivity. }
    split; [rewrite L; destruct x; reflexivity|]. split; [lia|].
    intros _. exists (VEnum E c), (VEnum E c). rewrite decode_int by assumption. rewrite Hs, V, Ht, ?Ha, Hn.
    cbn [apply_opt_conv apply_conv enum_of_value]. rewrite Hctor. cbn. auto.
  - (* the class itself as converter *)
    apply andb_prop in Hst as [A B]. apply enum_eqb_eq in A, B. subst a a'.
    exists v, b. unfold create_given. rewrite Hv, Hforce, Ha. cbn [bind apply_opt_conv].
    split; [reflexivity|]. split.
    { unfold bits_of_field, encode_field. destruct v; try congruence; rewrite Hf; cbn [apply_opt_conv apply_conv];
        rewrite Hev; cbn [bind]; rewrite Hd; cbn [value_as_int bind]; rewrite Hs, Eb; cbn [bind];
        rewrite firstn_exact by assumption; reflexivity. }
    split; [rewrite L; destruct x; reflexivity|]. split; [lia|].
    intros _. exists (VEnum E c), (VEnum E c). rewrite decode_int by assumption. rewrite Hs, V, Ht, ?Ha, Hn.
    cbn [apply_opt_conv apply_conv enum_of_value]. rewrite Hctor. cbn. auto.
  - (* attrs-level converter *)
    apply enum_eqb_eq in Hst. subst a''.
    exists (VEnum E c), b. unfold create_given. rewrite Hv, Hforce, Ha. cbn [bind apply_opt_conv apply_conv].
    split; [destruct v; try congruence; exact Hev|]. split.
    { unfold bits_of_field, encode_field. rewrite Hf. cbn [apply_opt_conv bind]. rewrite Hd. cbn [value_as_int bind].
      rewrite Hs, Eb. cbn [bind]. rewrite firstn_exact by assumption. reflexivity. }
    split; [rewrite L; destruct x; reflexivity|]. split; [lia|].
    intros _. exists (VInt c), (VEnum E c). rewrite decode_int by assumption. rewrite Hs, V, Ht, ?Ha, Hn.
    cbn [apply_opt_conv apply_conv enum_of_value]. rewrite Hctor. cbn. auto.
Qed.

(* ------------------------------------------------------------------------------------------------ *)
(* all kinds                                                                                          *)

Theorem kind_roundtrip k ex vl f x : field_impl k ex f = true -> (0 < f_width f)%nat ->
  in_range_kind k (f_width f) vl x = true -> x <> SBytes [] -> field_rt f (inj x) k ex x.
Proof.
  intros H Hw Hr Hne. destruct k.
  - apply kind_U; assumption.
  - apply kind_B; assumption.
  - apply kind_trunc10; auto.
  - apply kind_trunc10; auto.
  - apply kind_F1; assumption.
  - apply (kind_LL KLL 600000); auto.
  - apply (kind_LL KLL600 600); auto.
  - apply kind_ROT; assumption.
  - apply (kind_T ex vl); assumption.
  - apply (kind_bytes KD ex vl); auto.
  - apply (kind_bytes KX ex vl); auto.
  - apply kind_E; assumption.
Qed.
