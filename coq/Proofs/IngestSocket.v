(* C07, the socket front-end and the line terminators.

   SocketStream (TCP / UDP) = Model/Socket.v: socket_read (the recv loop, C06) followed by the line filter of
   Stream._iter_messages; ByteStream / BinaryIOStream / FileReaderStream = the same filter (Model/Assemble.v:
   stream_source) over the iterable / over the lines of the file object.  Here:
     - the two transcriptions of the filter are the same predicate (sock_filter_is_stream_filter);
     - for a stream of terminated lines and EVERY segmentation into receive chunks the socket reader hands its loop
       exactly the lines ByteStream and BinaryIOStream hand theirs (socket_frontend), hence the same deliveries
       (socket_reader_deliveries);
     - a reader's deliveries depend on a line only through produce(line) (rd_run_produce_ext), produce ignores the line
       terminator (produce_unterminated), so terminated and bare lines give the same deliveries, raw text included
       (terminators_irrelevant); the raw attribute a reader delivers for a line is the line without surrounding white
       space (terminator) and without its tag block (produce_raw, terminated_line_raw). *)
From Coq Require Import ZArith List Bool Lia.
Require Import Prim.Exn Prim.PyBytes Prim.PyList Prim.Splitlines Model.Sentence Model.Nmea Model.Tbq Model.Assemble
               Model.Reader Model.Socket Spec.SocketSpec.
Require Import Spec.AssembleSpec.
Require Import Proofs.ExnLemmas Proofs.NmeaProofs Proofs.AssembleProofs Proofs.ReaderProofs Proofs.ReaderIsolation
               Proofs.SocketProofs.
Import ListNotations.
Open Scope Z_scope.

(* ================================================================ one filter, transcribed twice *)

Lemma sock_filter_is_stream_filter : forall l, sock_line_filter l = negb (pyl_len l <=? 10) && should_parse l.
Proof. intros [|c r]; reflexivity. Qed.

Lemma sock_iter_messages_source : forall cs, sock_iter_messages cs = stream_source (socket_read cs).
Proof. intro cs. unfold sock_iter_messages, stream_source. apply filter_ext. exact sock_filter_is_stream_filter. Qed.

(* ================================================================ a stream of terminated lines, as a file and as a socket *)

Lemma lines_ok_terminated : forall ls, lines_ok ls ->
  exists ls0, ls = map terminated ls0 /\ Forall (fun l => ~ In 10 l) ls0.
Proof.
  induction ls as [|l ls IH]; intro H; [exists []; split; [reflexivity|constructor]|].
  inversion H as [|x y [content [Hc Hl]] Hr]; subst. destruct (IH Hr) as [ls0 [E F]].
  assert (Hno : ~ In 10 content).
  { intro Hin. rewrite Forall_forall in Hc. destruct (Hc 10 Hin) as [K _]. apply K. reflexivity. }
  destruct Hl as [Hl|Hl].
  - exists (content :: ls0). split; [cbn [map]; unfold terminated at 1; now rewrite Hl, E|]. constructor; assumption.
  - exists ((content ++ [13]) :: ls0). split.
    + cbn [map]. unfold terminated at 1. rewrite <- app_assoc. cbn [app]. now rewrite Hl, E.
    + constructor; [|exact F]. intro Hin. apply in_app_or in Hin. destruct Hin as [Hin|[Hin|[]]]; [auto|discriminate].
Qed.

Lemma split_after_lf_lines_ok : forall ls, lines_ok ls -> split_after_lf (concat ls) = ls.
Proof. intros ls H. destruct (lines_ok_terminated ls H) as [ls0 [-> F]]. apply split_after_lf_lines. exact F. Qed.

(* every segmentation of the byte stream: the socket reader, the file readers and the byte stream reader pass the
   same line list to the reassembly loop *)
Theorem socket_frontend : forall ls cs, lines_ok ls -> chunking cs (concat ls) ->
  sock_iter_messages cs = stream_source ls /\
  binaryio_source (concat ls) = stream_source ls /\
  bytestream_source ls = stream_source ls.
Proof.
  intros ls cs Hl Hc. split; [|split; [|reflexivity]].
  - rewrite sock_iter_messages_source, (socket_read_lines ls cs Hl Hc). reflexivity.
  - unfold binaryio_source. now rewrite (split_after_lf_lines_ok ls Hl).
Qed.

(* ================================================================ the readers *)

Section Readers.
  Variable uni : Z -> list Z -> option Z.

  Lemma rd_feed_ext : forall use_tbq tq a b, produce a = produce b -> rd_feed uni use_tbq tq a = rd_feed uni use_tbq tq b.
  Proof. intros use_tbq tq a b H. unfold rd_feed. rewrite H. reflexivity. Qed.

  (* a reader looks at a line through NMEASentenceFactory.produce only *)
  Lemma rd_run_produce_ext : forall step use_tbq l1 l2, Forall2 (fun a b => produce a = produce b) l1 l2 ->
    forall st, rd_run uni step use_tbq st l1 = rd_run uni step use_tbq st l2.
  Proof.
    intros step use_tbq l1 l2 H. induction H as [|a b l1 l2 Hab _ IH]; intros [ast tq]; [reflexivity|].
    cbn [rd_run]. unfold rd_step. rewrite (rd_feed_ext use_tbq tq a b Hab).
    destruct (rd_feed uni use_tbq tq b) as [[[p t] tq'] touts].
    destruct (step ast p t) as [[ast' outs]|e]; [|reflexivity]. now rewrite IH.
  Qed.

  (* the messages (and tag block groups) delivered by the socket reader are those of the byte stream / file readers on
     the same lines, for every segmentation, either loop, with or without a tag block queue *)
  Theorem socket_reader_deliveries : forall step use_tbq ls cs, lines_ok ls -> chunking cs (concat ls) ->
    rd_run uni step use_tbq rd_init (sock_iter_messages cs) = rd_run uni step use_tbq rd_init (stream_source ls) /\
    rd_run uni step use_tbq rd_init (binaryio_source (concat ls)) = rd_run uni step use_tbq rd_init (stream_source ls) /\
    rd_run uni step use_tbq rd_init (bytestream_source ls) = rd_run uni step use_tbq rd_init (stream_source ls).
  Proof.
    intros step use_tbq ls cs Hl Hc. destruct (socket_frontend ls cs Hl Hc) as [-> [-> ->]]. repeat split.
  Qed.

  (* ---------------------------------------------------------------- line terminators *)

  (* l is the line c followed by LF or CR LF *)
  Definition unterminated (l c : bytes) : Prop := l = c ++ [10] \/ l = c ++ [13; 10].

  Lemma strip_app_spaces : forall c ws, forallb is_space ws = true -> strip (c ++ ws) = strip c.
  Proof.
    intros c ws H. unfold strip. rewrite (lstrip_app_spaces c ws H).
    destruct (lstrip c) as [|x l] eqn:E; [reflexivity|]. apply rstrip_app_spaces. exact H.
  Qed.

  Lemma strip_unterminated : forall l c, unterminated l c -> strip l = strip c.
  Proof. intros l c [-> | ->]; apply strip_app_spaces; reflexivity. Qed.

  Lemma produce_unterminated : forall l c, unterminated l c -> produce l = produce c.
  Proof. intros l c H. apply produce_depends_on_strip. exact (strip_unterminated l c H). Qed.

  (* terminated lines and the bare lines: same deliveries, line by line, same final state *)
  Theorem terminators_irrelevant : forall step use_tbq ls cs0, Forall2 unterminated ls cs0 ->
    rd_run uni step use_tbq rd_init ls = rd_run uni step use_tbq rd_init cs0.
  Proof.
    intros step use_tbq ls cs0 H. apply rd_run_produce_ext.
    induction H as [|l c ls cs0 Hlc _ IH]; constructor; [exact (produce_unterminated l c Hlc)|exact IH].
  Qed.

  (* ---------------------------------------------------------------- the raw attribute *)

  (* the text NMEASentence.__init__ receives: the line without surrounding white space and without its tag block *)
  Definition line_sentence_text (l : bytes) : bytes := match pre_process l with Ok (rs, _) => rs | Raise _ => [] end.

  Lemma set_tag_block_raw : forall s t, c_raw (sentence_common (sentence_set_tag_block s t)) = c_raw (sentence_common s).
  Proof. intros [a|g] t; reflexivity. Qed.

  Lemma produce_inner_raw : forall rs s, produce_inner rs = Ok s -> c_raw (sentence_common s) = rs.
  Proof.
    intros rs s H. apply produce_inner_ok in H as [[a [-> Ha]] | [g [-> Hg]]]; cbn [sentence_common].
    - apply ais_init_ok in Ha as [Hn _]. exact (proj1 (nmea_init_raw rs _ Hn)).
    - apply gatehouse_init_ok in Hg. exact (proj1 (nmea_init_raw rs _ Hg)).
  Qed.

  (* the raw attribute of whatever a line parses to *)
  Theorem produce_raw : forall l s, produce l = Ok s -> c_raw (sentence_common s) = line_sentence_text l.
  Proof.
    intros l s H. unfold produce in H. destruct (Nat.eqb _ _); [discriminate|].
    apply bind_ok in H as [[rs tb] [Hpre H]]. cbv beta iota in H.
    apply bind_ok in H as [s0 [Hs0 H]]. unfold line_sentence_text. rewrite Hpre.
    pose proof (produce_inner_raw rs s0 Hs0) as R.
    destruct tb as [t|]; [destruct (nonempty t)|]; injection H as <-; rewrite ?set_tag_block_raw; exact R.
  Qed.

  Lemma sentence_text_strip : forall a b, strip a = strip b -> line_sentence_text a = line_sentence_text b.
  Proof. intros a b H. unfold line_sentence_text, pre_process. rewrite H. reflexivity. Qed.

  Lemma sentence_text_unterminated : forall l c, unterminated l c -> line_sentence_text l = line_sentence_text c.
  Proof. intros l c H. apply sentence_text_strip, strip_unterminated, H. Qed.

  (* a line without tag block and without surrounding white space is its own sentence text *)
  Lemma sentence_text_plain : forall x r, strip (x :: r) = x :: r -> x <> 92 -> line_sentence_text (x :: r) = x :: r.
  Proof.
    intros x r Hs Hx. unfold line_sentence_text, pre_process. rewrite Hs. rewrite py_index_0. cbn [bind].
    unfold TAG_BLOCK_START. replace (x =? 92) with false by (symmetry; apply Z.eqb_neq; exact Hx). reflexivity.
  Qed.

  (* so: a terminated line  c ++ LF / c ++ CR LF  whose content c starts with '!' or '$' and carries no surrounding white
     space parses, in every reader, to a sentence whose raw attribute is c *)
  Theorem terminated_line_raw : forall l x r s, unterminated l (x :: r) -> strip (x :: r) = x :: r -> x <> 92 ->
    produce l = Ok s -> c_raw (sentence_common s) = x :: r.
  Proof.
    intros l x r s Hu Hs Hx Hp. rewrite (produce_raw l s Hp), (sentence_text_unterminated l _ Hu).
    exact (sentence_text_plain x r Hs Hx).
  Qed.

  (* ================================================================ the two loops, at reader level *)

  (* neither produce nor the tag block queue can raise IndexError (Proofs/NmeaProofs.v, Proofs/TbqProofs.v), the only
     exception on which the two loops differ; so NMEAQueue.put_line and the generator of AssembleMessages deliver the same
     for EVERY line sequence, from every state, with and without a tag block queue *)
  Theorem rd_loops_equal : forall use_tbq lines st,
    rd_run uni queue_step use_tbq st lines = rd_run uni stream_step use_tbq st lines.
  Proof.
    intros use_tbq lines. induction lines as [|l rest IH]; intros [ast tq]; [reflexivity|].
    cbn [rd_run]. unfold rd_step. destruct (rd_feed uni use_tbq tq l) as [[[p t] tq'] touts] eqn:Ef.
    destruct (rd_feed_ok uni _ _ _ _ _ _ _ Ef) as [_ [Hp Ht]].
    assert (Hno : try_index_error p t = false).
    { unfold try_index_error. destruct p as [sn|e].
      - destruct t as [e|]; [|reflexivity]. cbn in Ht. destruct Ht as [->|[->| ->]]; reflexivity.
      - cbn in Hp. destruct Hp as [->|[->| ->]]; reflexivity. }
    rewrite queue_step_eq, Hno. destruct (stream_step ast p t) as [[ast' outs]|e]; [|reflexivity]. now rewrite IH.
  Qed.

  (* ================================================================ the six front-ends *)

  (* what each front-end delivers (AIS sentences and tag block groups per consumed line, final state) for the lines ls /
     the byte stream concat ls / the receive chunks cs *)
  Definition fe_iter (use_tbq : bool) (ls : list bytes) := rd_run uni stream_step use_tbq rd_init (iter_source ls).
  Definition fe_bytestream (use_tbq : bool) (ls : list bytes) := rd_run uni stream_step use_tbq rd_init (bytestream_source ls).
  Definition fe_binaryio (use_tbq : bool) (content : bytes) := rd_run uni stream_step use_tbq rd_init (binaryio_source content).
  Definition fe_file := fe_binaryio.                       (* FileReaderStream is BinaryIOStream over open(filename, 'rb') *)
  Definition fe_socket (use_tbq : bool) (cs : list bytes) := rd_run uni stream_step use_tbq rd_init (sock_iter_messages cs).
  Definition fe_queue (use_tbq : bool) (ls : list bytes) := rd_run uni queue_step use_tbq rd_init ls.   (* put_line per line *)

  (* lines as the property builds them (longer than 10 bytes, first byte ! $ or backslash), each terminated by LF or
     CR LF; any segmentation of the byte stream for the socket: all six deliver the same sequence of sentences -- the
     same records, hence the same raw text, payload, bits, validity flag, wrapper and tag block -- at the same lines *)
  Theorem six_frontends_agree : forall use_tbq ls cs, lines_ok ls -> Forall passes_filter ls -> chunking cs (concat ls) ->
    fe_bytestream use_tbq ls = fe_iter use_tbq ls /\
    fe_binaryio use_tbq (concat ls) = fe_iter use_tbq ls /\
    fe_file use_tbq (concat ls) = fe_iter use_tbq ls /\
    fe_socket use_tbq cs = fe_iter use_tbq ls /\
    fe_queue use_tbq ls = fe_iter use_tbq ls.
  Proof.
    intros use_tbq ls cs Hl Hf Hc. unfold fe_file, fe_bytestream, fe_binaryio, fe_socket, fe_queue, fe_iter, iter_source.
    destruct (socket_frontend ls cs Hl Hc) as [-> [-> ->]]. rewrite (stream_source_id ls Hf).
    repeat split. apply rd_loops_equal.
  Qed.

  (* and the same again when the in-memory iterator / the queue are given the bare lines (no terminator) *)
  Theorem six_frontends_agree_bare : forall use_tbq ls ls0 cs,
    lines_ok ls -> Forall passes_filter ls -> chunking cs (concat ls) -> Forall2 unterminated ls ls0 ->
    fe_iter use_tbq ls0 = fe_iter use_tbq ls /\ fe_queue use_tbq ls0 = fe_iter use_tbq ls /\
    fe_socket use_tbq cs = fe_iter use_tbq ls0.
  Proof.
    intros use_tbq ls ls0 cs Hl Hf Hc Hu. destruct (six_frontends_agree use_tbq ls cs Hl Hf Hc) as [_ [_ [_ [Hs Hq]]]].
    assert (E : fe_iter use_tbq ls0 = fe_iter use_tbq ls).
    { unfold fe_iter, iter_source. symmetry. apply terminators_irrelevant. exact Hu. }
    split; [exact E|]. split; [|now rewrite Hs, E].
    unfold fe_queue. rewrite rd_loops_equal. exact E.
  Qed.

  (* ================================================================ the wrapper each delivery carries (C18, at reader level) *)

  Lemma rd_inputs_fresh : forall use_tbq lines tq, Forall fresh_line (rd_inputs uni use_tbq tq lines).
  Proof.
    intros use_tbq lines. induction lines as [|l rest IH]; intro tq; [constructor|].
    cbn [rd_inputs]. destruct (rd_feed uni use_tbq tq l) as [[[p t] tq'] touts] eqn:Ef.
    destruct (rd_feed_ok uni _ _ _ _ _ _ _ Ef) as [Hp _]. constructor; [|apply IH].
    unfold fresh_line. destruct p as [[a|g]|e]; try exact I. symmetry in Hp.
    apply produce_ok in Hp as [rs [s0 [Hs0 Hs]]].
    apply produce_inner_ok in Hs0 as [[a0 [-> Ha0]] | [g [-> _]]].
    - apply ais_init_ok in Ha0 as [_ [_ [_ [_ [_ [_ [_ R]]]]]]].
      destruct Hs as [Hs | [tb Hs]]; inversion Hs; subst; exact R.
    - destruct Hs as [Hs | [tb Hs]]; inversion Hs.
  Qed.

  (* for every line sequence, either loop: the wrappers carried by the delivered sentences are those the C18
     specification prescribes for the wrapper lines read and the positions of the deliveries *)
  Theorem rd_wrappers_correct : forall use_tbq lines,
    let ins := rd_inputs uni use_tbq [] lines in
    let outs := map fst (fst (rd_run uni stream_step use_tbq rd_init lines)) in
    map (map a_wrapper) outs = spec_wrapper (asm_events ins (map has_delivery outs)) /\
    map fst (fst (rd_run uni queue_step use_tbq rd_init lines)) = outs.
  Proof.
    intros use_tbq lines ins outs. split; [|unfold outs; now rewrite rd_loops_equal].
    unfold outs, rd_init. rewrite rd_run_asm_run. fold ins. apply stream_wrappers_correct. apply rd_inputs_fresh.
  Qed.
End Readers.
