(* The field loops of Payload.to_bitarray / from_bitarray / create as maps over the field list, and
   fields_roundtrip: if every encoded field has exactly its width -- except that a field may be shorter (or absent) when
   nothing but absent fields follow -- then from_bitarray reads every field from exactly the bits it was written to.
   Unbounded: induction on the field list. *)
From Coq Require Import ZArith List Bool String Lia.
Require Import Prim.Exn Prim.Bits Gen.GenEnums Model.FieldTypes Gen.GenTables Model.Codec Proofs.RoundTripBits.
Import ListNotations.
Open Scope Z_scope.
Open Scope exn_scope.

Local Notation len := (@List.length bool).
Local Notation concat := (@List.concat bool).

Fixpoint mapM {A B} (g : A -> M B) (l : list A) : M (list B) :=
  match l with
  | [] => Ok []
  | a :: r => b <- g a ;; bs <- mapM g r ;; Ok (b :: bs)
  end.

Lemma mapM_ok {A B} (g : A -> M B) (h : A -> B) l :
  (forall a, In a l -> g a = Ok (h a)) -> mapM g l = Ok (map h l).
Proof.
  induction l as [|a r IH]; intros H; [reflexivity|].
  cbn [mapM map]. rewrite (H a (or_introl eq_refl)). cbn [bind].
  rewrite IH by (intros; apply H; right; assumption). reflexivity.
Qed.

Definition get_ok {A} (d : A) (m : M A) : A := match m with Ok a => a | Raise _ => d end.

Lemma is_ok_get {A} (d : A) (m : M A) : is_ok m = true -> m = Ok (get_ok d m).
Proof. destruct m; [reflexivity|discriminate]. Qed.

(* ------------------------------------------------------------------------------------------------ *)
(* to_bitarray                                                                                        *)

Definition bits_of_field (f : field) (v : value) : M bits :=
  ob <- encode_field f v ;; Ok (match ob with Some b => b | None => [] end).

Lemma to_bitarray_loop_map (fs : list field) (h : field -> value) :
  to_bitarray_loop fs (map h fs) = bss <- mapM (fun f => bits_of_field f (h f)) fs ;; Ok (concat bss).
Proof.
  induction fs as [|f r IH]; [reflexivity|].
  cbn [map to_bitarray_loop mapM]. unfold bits_of_field at 1.
  destruct (encode_field f (h f)) as [ob|e]; [|reflexivity]. cbn [bind].
  rewrite IH. destruct (mapM _ r) as [bss|e]; [|reflexivity]. cbn [bind concat].
  destruct ob; reflexivity.
Qed.

(* ------------------------------------------------------------------------------------------------ *)
(* from_bitarray                                                                                      *)

Definition decode_one (f : field) (b : bits) : M value :=
  match b with [] => Ok VNone | _ => decode_field f b end.

(* the admissible shapes of an encoded field list: full-width fields, then possibly one field that is shorter than
   its width (or empty), then only empty fields *)
Fixpoint shape (fs : list field) (bss : list bits) : Prop :=
  match fs, bss with
  | [], [] => True
  | f :: fr, b :: br =>
    (len b = f_width f /\ b <> [] /\ shape fr br)
    \/ ((len b <= f_width f)%nat /\ Forall (fun x => x = []) br /\ List.length fr = List.length br)
  | _, _ => False
  end.

Lemma concat_all_nil (l : list bits) : Forall (fun x => x = []) l -> concat l = [].
Proof. induction 1 as [|x r Hx _ IH]; [reflexivity|]. cbn. rewrite Hx, IH. reflexivity. Qed.

Lemma loop_exhausted : forall fs b cur e, (len b <= e)%nat ->
  from_bitarray_loop fs b cur e = Ok (map (fun _ => VNone) fs).
Proof.
  induction fs as [|f r IH]; intros b cur e H; [reflexivity|].
  cbn [from_bitarray_loop map]. destruct (Nat.leb_spec (len b) e); [|lia].
  rewrite IH by assumption. reflexivity.
Qed.

Lemma decode_all_nil : forall fs bss, Forall (fun x => x = []) bss -> List.length fs = List.length bss ->
  mapM (fun fb => decode_one (fst fb) (snd fb)) (combine fs bss) = Ok (map (fun _ => VNone) fs).
Proof.
  induction fs as [|f r IH]; intros [|b br] Hn Hl; try discriminate; [reflexivity|].
  inversion Hn as [|? ? Hb Hr]; subst. cbn [combine mapM fst snd decode_one bind map].
  rewrite IH by (try assumption; cbn in Hl; lia). reflexivity.
Qed.

Theorem fields_roundtrip : forall fs bss pre, shape fs bss ->
  from_bitarray_loop fs (pre ++ concat bss) (len pre) (len pre)
  = mapM (fun fb => decode_one (fst fb) (snd fb)) (combine fs bss).
Proof.
  induction fs as [|f fr IH]; intros [|b br] pre H; try contradiction; [reflexivity|].
  cbn [shape] in H. cbn [combine mapM fst snd concat from_bitarray_loop].
  destruct H as [(Hw & Hne & Hs)|(Hle & Hnil & Hlen)].
  - assert (0 < len b)%nat as Hpos by (destruct b; [congruence|cbn; lia]).
    rewrite !app_length.
    destruct (Nat.leb_spec (len pre + (len b + len (concat br))) (len pre)); [lia|].
    replace (Nat.min (len pre + (len b + len (concat br))) (len pre + f_width f)) with (len pre + len b)%nat by lia.
    rewrite slice_app_mid.
    unfold decode_one at 1. destruct b as [|x b']; [congruence|].
    destruct (decode_field f (x :: b')) as [v|e]; [|reflexivity]. cbn [bind].
    specialize (IH br (pre ++ x :: b') Hs). rewrite app_length, <- app_assoc in IH. rewrite IH. reflexivity.
  - rewrite (concat_all_nil br Hnil), app_nil_r.
    rewrite decode_all_nil by assumption.
    destruct b as [|x b'].
    + rewrite app_nil_r. destruct (Nat.leb_spec (len pre) (len pre)); [|lia].
      rewrite loop_exhausted by lia. reflexivity.
    + rewrite app_length. destruct (Nat.leb_spec (len pre + len (x :: b')) (len pre)); [cbn in *; lia|].
      replace (Nat.min (len pre + len (x :: b')) (len pre + f_width f)) with (len pre + len (x :: b'))%nat by lia.
      replace (pre ++ x :: b') with (pre ++ (x :: b') ++ []) at 1 by (rewrite app_nil_r; reflexivity).
      rewrite slice_app_mid. cbn [decode_one].
      destruct (decode_field f (x :: b')) as [v|e]; [|reflexivity]. cbn [bind].
      rewrite loop_exhausted by (rewrite app_length; lia). reflexivity.
Qed.

Lemma combine_map_r {A B} (h : A -> B) (l : list A) : combine l (map h l) = map (fun a => (a, h a)) l.
Proof. induction l; cbn; congruence. Qed.

Lemma mapM_map {A B C} (g : B -> M C) (h : A -> B) l : mapM g (map h l) = mapM (fun a => g (h a)) l.
Proof. induction l as [|a r IH]; [reflexivity|]. cbn [map mapM]. rewrite IH. reflexivity. Qed.

Lemma init_attrs_map (fs : list field) (h : field -> value) :
  init_attrs fs (map h fs) = mapM (fun f => apply_opt_conv (f_attrs_conv f) (h f)) fs.
Proof. induction fs as [|f r IH]; [reflexivity|]. cbn [map init_attrs mapM]. rewrite IH. reflexivity. Qed.

(* the decode direction of a whole message whose encoded fields [hb f] have an admissible shape *)
Lemma from_bitarray_fields (fs : list field) (hb : field -> bits) :
  shape fs (map hb fs) ->
  from_bitarray_loop fs (concat (map hb fs)) 0 0 = mapM (fun f => decode_one f (hb f)) fs.
Proof.
  intros H. pose proof (fields_roundtrip fs (map hb fs) [] H) as E. cbn [app List.length] in E.
  rewrite E, combine_map_r, mapM_map. reflexivity.
Qed.

(* sufficient for [shape]: every field but the last has its full (positive) width *)
Lemma shape_all_but_last : forall fs (hb : field -> bits),
  (forall f, In f (removelast fs) -> len (hb f) = f_width f /\ hb f <> []) ->
  (forall f, In f fs -> (len (hb f) <= f_width f)%nat) ->
  shape fs (map hb fs).
Proof.
  induction fs as [|f r IH]; intros hb Hfull Hle; [exact I|].
  cbn [map shape]. destruct r as [|g r'].
  - right. split; [apply Hle; left; reflexivity|]. split; [constructor|reflexivity].
  - left. destruct (Hfull f) as [A B]; [left; reflexivity|]. split; [exact A|]. split; [exact B|].
    apply IH.
    + intros f' Hin. apply Hfull. right. exact Hin.
    + intros f' Hin. apply Hle. right. exact Hin.
Qed.

(* ... or: full-width fields, then (from position n on) one possibly short field and only empty ones *)
Lemma shape_prefix : forall fs (hb : field -> bits) (n : nat),
  (forall f, In f (firstn n fs) -> len (hb f) = f_width f /\ hb f <> []) ->
  (forall f, In f (firstn 1 (skipn n fs)) -> (len (hb f) <= f_width f)%nat) ->
  (forall f, In f (skipn (S n) fs) -> hb f = []) ->
  shape fs (map hb fs).
Proof.
  induction fs as [|f r IH]; intros hb n Hfull Hshort Hnil; [exact I|].
  cbn [map shape]. destruct n as [|n].
  - right. split; [apply Hshort; left; reflexivity|]. split; [|rewrite map_length; reflexivity].
    apply Forall_forall. intros x Hx. apply in_map_iff in Hx as (g & <- & Hg). apply Hnil. exact Hg.
  - left. destruct (Hfull f) as [A B]; [left; reflexivity|]. split; [exact A|]. split; [exact B|].
    apply (IH hb n).
    + intros g Hg. apply Hfull. right. exact Hg.
    + exact Hshort.
    + exact Hnil.
Qed.

(* ------------------------------------------------------------------------------------------------ *)
(* create                                                                                             *)

Definition arg_of (kw : list (string * value)) (f : field) : M value :=
  match assoc_s (f_name f) kw with
  | Some v => force_type f v
  | None => match f_default f with Some d => Ok d | None => Raise (Py TypeError) end
  end.

Lemma create_args_map fs kw : create_args fs kw = mapM (arg_of kw) fs.
Proof. induction fs as [|f r IH]; [reflexivity|]. cbn [create_args mapM]. rewrite IH. reflexivity. Qed.

Lemma force_all_ok fs kw : (forall f, In f fs -> is_ok (arg_of kw f) = true) -> force_all fs kw = Ok tt.
Proof.
  induction fs as [|f r IH]; intros H; [reflexivity|].
  cbn [force_all]. pose proof (H f (or_introl eq_refl)) as Hf. unfold arg_of in Hf.
  destruct (assoc_s (f_name f) kw).
  - destruct (force_type f v); [|discriminate]. cbn [bind]. apply IH. intros; apply H; right; assumption.
  - cbn [bind]. apply IH. intros; apply H; right; assumption.
Qed.

Definition create_field (kw : list (string * value)) (f : field) : M value :=
  a <- arg_of kw f ;; apply_opt_conv (f_attrs_conv f) a.

(* Payload.create as a map over the field list *)
Lemma create_cls_map c kw (cv : field -> value) :
  (forall f, In f (fields_of c) -> create_field kw f = Ok (cv f)) ->
  create_cls c kw = Ok (map cv (fields_of c)).
Proof.
  intros H. unfold create_cls.
  set (av := fun f => get_ok VNone (arg_of kw f)).
  assert (forall f, In f (fields_of c) -> arg_of kw f = Ok (av f)) as Ha.
  { intros f Hf. specialize (H f Hf). unfold create_field in H. unfold av.
    destruct (arg_of kw f); [reflexivity|discriminate]. }
  rewrite force_all_ok by (intros f Hf; rewrite (Ha f Hf); reflexivity). cbn [bind].
  rewrite create_args_map, (mapM_ok _ av _ Ha). cbn [bind].
  rewrite init_attrs_map. apply mapM_ok. intros f Hf. specialize (H f Hf).
  unfold create_field in H. rewrite (Ha f Hf) in H. exact H.
Qed.

(* ------------------------------------------------------------------------------------------------ *)
(* a whole message: create -> to_bitarray -> from_bitarray, field by field                             *)

Lemma message_roundtrip c (cv : field -> value) (hb : field -> bits) (r0 r : field -> value) :
  (forall f, In f (fields_of c) -> bits_of_field f (cv f) = Ok (hb f)) ->
  shape (fields_of c) (map hb (fields_of c)) ->
  (forall f, In f (fields_of c) -> decode_one f (hb f) = Ok (r0 f)) ->
  (forall f, In f (fields_of c) -> apply_opt_conv (f_attrs_conv f) (r0 f) = Ok (r f)) ->
  to_bitarray c (map cv (fields_of c)) = Ok (concat (map hb (fields_of c))) /\
  from_bitarray c (concat (map hb (fields_of c))) = Ok (map r (fields_of c)).
Proof.
  intros He Hs Hd Hi. split.
  - unfold to_bitarray. rewrite to_bitarray_loop_map, (mapM_ok _ hb _ He). reflexivity.
  - unfold from_bitarray. rewrite from_bitarray_fields by assumption.
    rewrite (mapM_ok _ r0 _ Hd). cbn [bind]. rewrite init_attrs_map. apply mapM_ok. exact Hi.
Qed.

(* ------------------------------------------------------------------------------------------------ *)
(* reading a field's bits out of the concatenation (for the dispatch on discriminator bits)           *)

Lemma get_int_slice b lo hi d : slice b lo hi = d -> len d = (hi - lo)%nat -> get_int b lo hi false = ubits d.
Proof.
  intros E L. unfold get_int. rewrite E, <- L. apply from_bytes_u_shift.
Qed.

Fixpoint width_sum (fs : list field) : nat :=
  match fs with [] => O | f :: r => (f_width f + width_sum r)%nat end.

Lemma slice_concat_field : forall (fs1 : list field) f fs2 (hb : field -> bits),
  (forall g, In g fs1 -> len (hb g) = f_width g) ->
  slice (concat (map hb (fs1 ++ f :: fs2))) (width_sum fs1) (width_sum fs1 + len (hb f)) = hb f.
Proof.
  intros fs1 f fs2 hb H.
  rewrite map_app, concat_app. cbn [map concat].
  assert (len (concat (map hb fs1)) = width_sum fs1) as L.
  { induction fs1 as [|g r IH]; [reflexivity|]. cbn [map concat width_sum]. rewrite app_length.
    rewrite (H g (or_introl eq_refl)), IH; [reflexivity|]. intros; apply H; right; assumption. }
  rewrite <- L. apply slice_app_mid.
Qed.

(* the value of a slice only depends on the prefix that contains it *)
Lemma slice_firstn {A} (b : list A) lo hi n : (hi <= n)%nat -> slice (firstn n b) lo hi = slice b lo hi.
Proof.
  intros H. unfold slice.
  destruct (Nat.leb_spec hi lo) as [Hle|Hlt].
  - replace (hi - lo)%nat with 0%nat by lia. reflexivity.
  - rewrite skipn_firstn_comm. rewrite firstn_firstn. f_equal. lia.
Qed.

Lemma get_int_firstn b lo hi n s : (hi <= n)%nat -> get_int (firstn n b) lo hi s = get_int b lo hi s.
Proof. intros H. unfold get_int. rewrite slice_firstn by assumption. reflexivity. Qed.
