(* Tolerance corollary of C02 and "wire-representable values come back unchanged", at the level of the specification
   (Spec/RoundTripSpec.v normalise_kind / tolerance), in exact arithmetic. *)
From Coq Require Import ZArith List Bool String Lia.
Require Import Spec.Layout Spec.RoundTripSpec.
Import ListNotations.
Open Scope Z_scope.

Lemma rhe_spec a b : 0 < b -> 2 * b * round_half_even a b - b <= 2 * a <= 2 * b * round_half_even a b + b.
Proof.
  intros Hb. unfold round_half_even.
  pose proof (Z.div_mod a b ltac:(lia)) as E. pose proof (Z.mod_pos_bound a b Hb) as B.
  destruct (Z.ltb_spec (2 * (a mod b)) b); [nia|].
  destruct (Z.ltb_spec b (2 * (a mod b))); [nia|].
  destruct (Z.even (a / b)); nia.
Qed.

Lemma rhe_unique a b c : 0 < b -> 2 * Z.abs (a - c * b) < b -> round_half_even a b = c.
Proof. intros Hb H. pose proof (rhe_spec a b Hb). nia. Qed.

Lemma quot_error a d : 0 < d -> Z.abs (Z.quot a d * d - a) < d.
Proof.
  intros Hd. pose proof (Z.quot_rem' a d) as E. pose proof (Z.rem_bound_abs a d ltac:(lia)) as B.
  replace (Z.quot a d * d - a) with (- Z.rem a d) by lia. rewrite Z.abs_opp. lia.
Qed.

Lemma real_pos x n d : real_of x = Some (n, d) -> 0 < d.
Proof.
  destruct x; cbn; try discriminate.
  - intros H. injection H as _ <-. lia.
  - destruct (Z.ltb_spec 0 den) as [Hp|]; [|discriminate]. intros H. injection H as _ <-. assumption.
Qed.

(* tolerance corollary: a scaled value comes back within one wire step (truncating kinds), positions within half a
   step plus half a unit of the sixth decimal the decoder reports *)
Theorem tolerance_ok k x n d tn td st :
  real_of x = Some (n, d) -> tolerance k = Some (tn, td, st) ->
  exists yn yd, normalise_kind k x = SFrac yn yd /\ 0 < yd /\ within st tn td n d yn yd = true.
Proof.
  intros Hx Ht. pose proof (real_pos x n d Hx) as Hd.
  destruct k; cbn [tolerance] in Ht; try discriminate; injection Ht as <- <- <-;
    cbn [normalise_kind]; unfold frac_or; rewrite Hx; eexists _, _; (split; [reflexivity|]); (split; [lia|]);
    unfold within, code_trunc, code_near.
  - pose proof (quot_error (n * 10) d Hd). apply Z.ltb_lt. nia.
  - pose proof (quot_error (n * 10) d Hd). apply Z.ltb_lt. nia.
  - pose proof (quot_error (n * 1) d Hd). apply Z.ltb_lt. nia.
  - pose proof (rhe_spec (n * 600000) d Hd) as A.
    pose proof (rhe_spec (round_half_even (n * 600000) d * 1000000) 600000 ltac:(lia)) as B.
    apply Z.leb_le. nia.
  - pose proof (rhe_spec (n * 600) d Hd) as A.
    pose proof (rhe_spec (round_half_even (n * 600) d * 1000000) 600 ltac:(lia)) as B.
    apply Z.leb_le. nia.
Qed.

(* the wire code of a position is the nearest one: |x * scale - code| <= 1/2 *)
Theorem position_code_nearest scale n d : 0 < d -> 2 * Z.abs (code_near scale n d * d - n * scale) <= d.
Proof. intros Hd. unfold code_near. pose proof (rhe_spec (n * scale) d Hd). nia. Qed.

(* wire-representable values come back unchanged: the value the decoder reports for a code is a fixed point *)
Lemma position_code_stable scale c : (scale = 600000 \/ scale = 600) ->
  code_near scale (round_half_even (c * 1000000) scale) 1000000 = c.
Proof.
  intros Hs. unfold code_near. apply rhe_unique; [lia|].
  pose proof (rhe_spec (c * 1000000) scale ltac:(lia)). destruct Hs as [-> | ->]; nia.
Qed.

Theorem representable_unchanged k c :
  match k with
  | KU10 | KI10 => normalise_kind k (SFrac c 10) = SFrac c 10
  | KF1 => normalise_kind k (SFrac c 1) = SFrac c 1
  | KLL => let y := SFrac (round_half_even (c * 1000000) 600000) 1000000 in normalise_kind k y = y
  | KLL600 => let y := SFrac (round_half_even (c * 1000000) 600) 1000000 in normalise_kind k y = y
  | _ => True
  end.
Proof.
  destruct k; try exact I; cbn [normalise_kind]; unfold frac_or; cbn [real_of]; cbn [Z.ltb Z.compare]; unfold code_trunc.
  - rewrite Z.quot_mul by lia. reflexivity.
  - rewrite Z.quot_mul by lia. reflexivity.
  - rewrite Z.quot_mul by lia. reflexivity.
  - rewrite position_code_stable by auto. reflexivity.
  - rewrite position_code_stable by auto. reflexivity.
Qed.

(* rate of turn: every one of the 256 codes decodes to a value that is sent as a code decoding to the same value *)
Definition turn_code_stable (c : Z) : bool :=
  match spec_turn c with
  | SFrac n d => match spec_turn (rot_code n d) with
                 | SFrac n' d' => (n' =? n) && (d' =? d)
                 | _ => false
                 end
  | _ => true
  end.

Theorem turn_roundtrip : forall c, -128 <= c <= 127 -> turn_code_stable c = true.
Proof.
  assert (forallb turn_code_stable (zrange (-128) 127) = true) as K by (vm_compute; reflexivity).
  intros c Hc. rewrite forallb_forall in K. apply K.
  unfold zrange. apply in_map_iff. exists (Z.to_nat (c + 128)). split; [lia|]. apply in_seq. lia.
Qed.
