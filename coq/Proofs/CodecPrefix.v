(* C11: truncated payloads decode their covered fields, the rest is None.  (Shared parts: Proofs/CodecCommon.v.)

   total_sem / total_none     a field that passes [total_ok] decodes every slice not longer than itself without an exception,
                              and a None attribute stays None in __init__
   tables_total_match_spec    names, widths, contiguous offsets of the 35 regenerated tables = Spec/Layout.v, and total_ok of
                              every field, by vm_compute (re-run against the regenerated tables)
   C11_truncated              the main theorem, for every payload and every cut position

   Deliberately independent of C01's signature check: a changed sign flag or scale constant does not touch this file. *)
From Coq Require Import ZArith List Bool String Lia ZifyBool ZifyNat.
Require Import Prim.Exn Prim.Bits Prim.Dict Gen.GenEnums Model.FieldTypes Gen.GenTables Gen.GenDispatch Gen.GenConv
               Model.Codec Spec.Layout Spec.LayoutRel Proofs.BitsLemmas Proofs.CodecCommon.
Import ListNotations.
Open Scope list_scope.
Open Scope Z_scope.
Ltac Zify.zify_post_hook ::= Z.to_euclidean_division_equations.

Local Notation length := List.length (only parsing).

(* ------------------------------------------------------------------------------------------------ *)
(* 7. C11                                                                                              *)

(* C11 rests on less than C01: names, widths and offsets of the regenerated tables, and [total_ok] of every field *)

Lemma is_div_any_inv : forall r, is_div_any r = true -> exists c, r = RShape (ShDiv c) /\ dec_num c <> 0.
Proof.
  intros r H. destruct r as [|sh| | |]; try discriminate. destruct sh; try discriminate. cbn [is_div_any] in H.
  eexists. split; [reflexivity|]. lia.
Qed.

Lemma is_round_div_any_inv : forall r, is_round_div_any r = true ->
  exists c nd, r = RShape (ShRoundFloatDiv c nd) /\ 0 < dec_num c /\ 0 <= nd.
Proof.
  intros r H. destruct r as [|sh| | |]; try discriminate. destruct sh; try discriminate. cbn [is_round_div_any] in H.
  do 2 eexists. split; [reflexivity|]. lia.
Qed.

Lemma is_to_turn_any_inv : forall r, is_to_turn_any r = true ->
  exists k127 k128 c, r = RShape (ShToTurn k127 k128 c) /\ 0 < dec_num c /\
                      is_ok (TurnRate_ctor k127) = true /\ is_ok (TurnRate_ctor (- k127)) = true.
Proof.
  intros r H. destruct r as [|sh| | |]; try discriminate. destruct sh; try discriminate. cbn [is_to_turn_any] in H.
  split_andb. do 3 eexists. split; [reflexivity|]. repeat split; try assumption. lia.
Qed.

Lemma to_turn_total : forall k127 k128 c z, 0 < dec_num c ->
  is_ok (TurnRate_ctor k127) = true -> is_ok (TurnRate_ctor (- k127)) = true ->
  exists v, apply_shape (ShToTurn k127 k128 c) (VFloat z 1) = Ok v.
Proof.
  intros k127 k128 c z Hc Hp Hm. unfold apply_shape, as_frac, dec_num_den, zabs_frac_eq.
  destruct (z =? 0); [eauto|].
  destruct (Z.abs z =? k127 * 1) eqn:E127.
  - rewrite Z.mod_1_r, Z.div_1_r. cbn [Z.eqb].
    assert (Hz : z = k127 \/ z = - k127) by lia.
    destruct Hz as [-> | ->]; [destruct (TurnRate_ctor k127)|destruct (TurnRate_ctor (- k127))];
      try discriminate; cbn [bind]; eauto.
  - destruct (Z.abs z =? k128 * 1); [eauto|].
    replace (dec_num c <=? 0) with false by lia. eauto.
Qed.

Lemma enum_total_sem : forall e code, enum_total e = true -> 0 <= code < 256 -> exists m, enum_ctor e code = Ok m.
Proof.
  intros e code H Hc. unfold enum_total in H.
  pose proof (proj1 (forallb_forall _ _) H code (in_zrange 0 255 code ltac:(lia))) as Hk. cbv beta in Hk.
  destruct (enum_ctor e code) as [m|]; [eauto|discriminate].
Qed.

(* decoding a slice that is not longer than the field never raises *)
Theorem total_sem : forall f bs, total_ok f = true -> (length bs <= f_width f)%nat ->
  exists kw v, decode_field f bs = Ok kw /\ apply_opt_conv (f_attrs_conv f) kw = Ok v.
Proof.
  intros f bs Ht Hl. unfold total_ok in Ht.
  assert (G : exists kw v, apply_rconv (resolve (f_to f)) (raw_value f bs) = Ok kw /\
                           apply_rconv (resolve (f_attrs_conv f)) kw = Ok v).
  2: { destruct G as (kw & v & A & B). exists kw, v. rewrite apply_resolve, decode_field_raw. auto. }
  rewrite raw_value_int.
  destruct (f_dtype f) eqn:Ed.
  - (* int *) apply orb_true_iff in Ht as [Ht|Ht]; split_andb.
    + apply is_none_eq in H, H0. rewrite H, H0. cbn [apply_rconv]. eauto.
    + apply negb_true_iff in H. apply Nat.leb_le in H1. unfold int_of. rewrite H.
      destruct (enum_conv (resolve (f_to f)) (resolve (f_attrs_conv f))) as [e|] eqn:Ec; [|discriminate].
      pose proof (uval_bound bs) as Hb.
      assert (2 ^ Z.of_nat (length bs) <= 256) by (apply pow2_le_256; lia).
      destruct (enum_total_sem e (uval bs) H0 ltac:(lia)) as (m & Em).
      unfold enum_conv in Ec.
      destruct (resolve (f_to f)) eqn:Eto; destruct (resolve (f_attrs_conv f)); try discriminate; injection Ec as ->;
        (exists (match resolve (f_to f) with RNone => VInt (uval bs) | _ => VEnum e m end), (VEnum e m));
        rewrite Eto; cbn [apply_rconv enum_of_value]; rewrite ?Em; cbn [bind]; split; reflexivity.
  - (* bool *) split_andb. apply is_none_eq in H, H0. rewrite H, H0. cbn [apply_rconv]. eauto.
  - (* float *) split_andb. apply is_none_eq in H. rewrite H.
    repeat match goal with H : _ || _ = true |- _ => apply orb_true_iff in H; destruct H end.
    + apply is_none_eq in H0. rewrite H0. cbn [apply_rconv]. eauto.
    + apply is_div_any_inv in H0 as (c & -> & Hc). cbn [apply_rconv].
      unfold apply_shape, as_frac, dec_num_den. replace (dec_num c =? 0) with false by lia. eauto.
    + apply is_round_div_any_inv in H0 as (c & nd & -> & Hc & Hnd). cbn [apply_rconv].
      unfold apply_shape, as_frac, dec_num_den.
      replace (dec_num c <=? 0) with false by lia. replace (nd <? 0) with false by lia. eauto.
    + apply is_to_turn_any_inv in H0 as (k127 & k128 & c & -> & Hc & Hp & Hm). cbn [apply_rconv].
      destruct (to_turn_total k127 k128 c (int_of f bs) Hc Hp Hm) as (v & Hv). rewrite Hv. eauto.
  - (* str *) split_andb. apply is_none_eq in H, H0. rewrite H, H0. cbn [apply_rconv]. eauto.
  - (* bytes *) split_andb. apply is_none_eq in H, H0. rewrite H, H0. cbn [apply_rconv]. eauto.
Qed.

(* an attribute that is None stays None in __init__ *)
Lemma total_none : forall f, total_ok f = true -> apply_opt_conv (f_attrs_conv f) VNone = Ok VNone.
Proof.
  intros f Ht. rewrite apply_resolve. unfold total_ok in Ht.
  destruct (f_dtype f); try (split_andb; match goal with H : is_none (resolve (f_attrs_conv f)) = true |- _ =>
                                                   apply is_none_eq in H; rewrite H; reflexivity end).
  apply orb_true_iff in Ht as [Ht|Ht]; split_andb.
  - apply is_none_eq in H0. rewrite H0. reflexivity.
  - destruct (enum_conv (resolve (f_to f)) (resolve (f_attrs_conv f))) eqn:Ec; [|discriminate].
    unfold enum_conv in Ec.
    destruct (resolve (f_to f)); destruct (resolve (f_attrs_conv f)); try discriminate; reflexivity.
Qed.

Lemma dec1_total : forall f b off, total_ok f = true -> exists v, dec1 f b off = Ok v.
Proof.
  intros f b off Hs. unfold dec1, field_at. destruct (length b <=? off)%nat.
  - exists VNone. cbn [bind]. exact (total_none _ Hs).
  - rewrite slice_sub.
    destruct (total_sem f (sub b off (Nat.min (length b) (off + f_width f) - off)) Hs) as (kw & v & Hd & Ha).
    + pose proof (sub_length_le b off (Nat.min (length b) (off + f_width f) - off)). lia.
    + exists v. rewrite Hd. exact Ha.
Qed.

(* decoding never fails on a payload of any length *)
Lemma dec_all_total : forall what fs sfs off b, field_errors ok_c11 what fs sfs off = [] ->
  exists vals, mseq (dec_all fs b off) = Ok vals.
Proof.
  intros what. induction fs as [|f fr IH]; intros [|s sr] off b He; try discriminate.
  - exists []. reflexivity.
  - apply field_errors_cons in He as (_ & _ & _ & _ & Hs & He). unfold ok_c11 in Hs.
    destruct (IH _ _ b He) as (vals & Hm). destruct (dec1_total f b off Hs) as (v & Hv).
    exists (v :: vals). cbn [dec_all]. apply mseq_cons_ok; assumption.
Qed.

(* re-checked against the regenerated tables on every run; the failure message lists the offending class.field *)
Lemma tables_total_match_spec : flat_map (fun v => prefix_errors (cls_of v) v) all_variants = [].
Proof. vm_compute. reflexivity. Qed.

Lemma all_variants_complete : forall v, In v all_variants.
Proof. destruct v; cbn; repeat (first [left; reflexivity | right]). Qed.

Lemma prefix_tables_ok : forall v, prefix_errors (cls_of v) v = [].
Proof.
  intros v. pose proof tables_total_match_spec as H. pose proof (all_variants_complete v) as Hin.
  revert H Hin. induction all_variants as [|w r IH]; intros H Hin; [destruct Hin|].
  cbn [flat_map] in H. apply app_eq_nil in H as [Hw Hr]. destruct Hin as [->|Hin]; auto.
Qed.

Lemma dec_all_length : forall fs b off, length (dec_all fs b off) = length fs.
Proof. induction fs as [|f fr IH]; intros; [reflexivity|]. cbn [dec_all List.length]. f_equal. apply IH. Qed.

(* a field that lies completely inside the prefix decodes as in the whole payload *)
Lemma dec1_prefix_inside : forall f b n off, (n <= length b)%nat -> (0 < f_width f)%nat -> (off + f_width f <= n)%nat ->
  dec1 f (firstn n b) off = dec1 f b off.
Proof.
  intros f b n off Hn Hp Hi. rewrite !dec1_inside by (rewrite ?firstn_length; lia).
  rewrite sub_firstn by lia. reflexivity.
Qed.

(* a field that starts at or beyond the end of the prefix is None *)
Lemma dec1_prefix_beyond : forall f b n off, total_ok f = true -> (n <= length b)%nat -> (n <= off)%nat ->
  dec1 f (firstn n b) off = Ok VNone.
Proof.
  intros f b n off Hs Hn Ho. unfold dec1, field_at. rewrite firstn_length.
  replace (Nat.min n (length b) <=? off)%nat with true by (symmetry; apply Nat.leb_le; lia).
  cbn [bind]. exact (total_none _ Hs).
Qed.

(* C11: every prefix that still contains the type id and the variant discriminator decodes without an exception to
   the same class; a field that lies completely inside the prefix has the value it has in the untruncated message;
   a field that starts at or beyond the end of the prefix is None.  The positions are those of the layout. *)
Theorem C11_truncated : forall v bits n,
  length bits = nominal v -> spec_variant bits = Some v ->
  (Nat.max 6 (disc_end v) <= n <= length bits)%nat ->
  exists vals vals',
    decode_bits bits = Ok (cls_of v, vals) /\
    decode_bits (firstn n bits) = Ok (cls_of v, vals') /\
    length vals = length (spec_layout v) /\ length vals' = length (spec_layout v) /\
    forall i f, nth_error (spec_layout v) i = Some f ->
      ((s_off f + s_width f <= n)%nat -> nth_error vals' i = nth_error vals i) /\
      ((n <= s_off f)%nat -> nth_error vals' i = Some VNone).
Proof.
  intros v bits n Hlen Hv Hn.
  destruct (table_errors_inv _ _ _ _ (prefix_tables_ok v)) as (_ & _ & Herr).
  destruct (nominal_covers_disc v) as [H6 Hd].
  assert (Hsel : selects bits v) by (apply spec_variant_selects; [exact Hv|lia]).
  assert (Hsel' : selects (firstn n bits) v) by (apply selects_prefix; [exact Hsel|lia]).
  destruct (dec_all_total _ _ _ 0%nat bits Herr) as (vals & Hm).
  destruct (dec_all_total _ _ _ 0%nat (firstn n bits) Herr) as (vals' & Hm').
  exists vals, vals'. split; [|split; [|split; [|split]]].
  - apply decode_bits_of_selects; try lia; [exact Hsel|]. apply from_bitarray_of_dec_all. exact Hm.
  - apply decode_bits_of_selects; rewrite ?firstn_length; try lia; [exact Hsel'|].
    apply from_bitarray_of_dec_all. exact Hm'.
  - rewrite (mseq_length _ _ Hm), dec_all_length. exact (field_errors_length _ _ _ _ _ Herr).
  - rewrite (mseq_length _ _ Hm'), dec_all_length. exact (field_errors_length _ _ _ _ _ Herr).
  - intros i s Hi. destruct (field_errors_nth _ _ _ _ _ _ _ Herr Hi) as (f & Hf & Hw & Hp & Hs & Hnth).
    unfold ok_c11 in Hs.
    destruct (mseq_nth _ _ _ _ Hm (Hnth bits)) as (a & Ha & Hva).
    destruct (mseq_nth _ _ _ _ Hm' (Hnth (firstn n bits))) as (a' & Ha' & Hva').
    split; intros Hc.
    + rewrite dec1_prefix_inside in Ha' by lia. rewrite Hva, Hva'. congruence.
    + rewrite (dec1_prefix_beyond _ _ _ _ Hs) in Ha' by lia. rewrite Hva'. congruence.
Qed.
