(* Proofs about Model/Tracker.v against Spec/TrackerSpec.v (C12-C15).
   Layout: 1 dictionaries  2 sorting  3 the invariant of reachable states and what each method does
           4 C13 (expiry)  6 C14 (top n)  7 C15 (events)  5 C12 (the map refinement)
           then: facts about the specification itself, C12 + C13 in one statement, wrappers over reachable states. *)
From Coq Require Import List Bool ZArith Lia Sorted Permutation.
Require Import Prim.Exn Prim.IntDict Model.Tracker Spec.TrackerSpec.
Import ListNotations.
Open Scope Z_scope.


(* ================================================================================= 1. dictionaries *)
Section Dict.
  Context {A : Type}.
  Implicit Types d : idict A.

  Definition keys d : list Z := map fst d.
  (* the entries whose key is not in [p] *)
  Definition without (p : Z -> bool) d : idict A := filter (fun kv => negb (p (fst kv))) d.

  Lemma get_without p d k : idict_get (without p d) k = if p k then None else idict_get d k.
  Proof.
    induction d as [|[k0 v] r IH]; simpl.
    - destruct (p k); reflexivity.
    - destruct (p k0) eqn:Ep; simpl.
      + rewrite IH. destruct (Z.eqb_spec k k0) as [->|N]; [rewrite Ep|]; reflexivity.
      + rewrite IH. destruct (Z.eqb_spec k k0) as [->|N]; [rewrite Ep|]; reflexivity.
  Qed.

  Lemma keys_without p d : keys (without p d) = filter (fun k => negb (p k)) (keys d).
  Proof.
    induction d as [|[k0 v] r IH]; simpl; [reflexivity|].
    destruct (p k0); simpl; rewrite IH; reflexivity.
  Qed.

  Lemma in_without p d kv : In kv (without p d) <-> In kv d /\ p (fst kv) = false.
  Proof. unfold without. rewrite filter_In. rewrite negb_true_iff. tauto. Qed.

  Lemma nodup_filter {B} (f : B -> bool) l : NoDup l -> NoDup (filter f l).
  Proof.
    induction 1; simpl; [constructor|]. destruct (f x); [constructor|]; auto.
    rewrite filter_In. tauto.
  Qed.

  Lemma nodup_keys_without p d : NoDup (keys d) -> NoDup (keys (without p d)).
  Proof. rewrite keys_without. apply nodup_filter. Qed.

  Lemma get_none_iff d k : idict_get d k = None <-> ~ In k (keys d).
  Proof.
    induction d as [|[k0 v] r IH]; simpl; [tauto|].
    destruct (Z.eqb_spec k k0) as [->|N].
    - split; [discriminate|]. intros H. exfalso. apply H. now left.
    - rewrite IH. split; [intros H [E|I]; [congruence|tauto] | tauto].
  Qed.

  Lemma get_some_in d k v : idict_get d k = Some v -> In (k, v) d.
  Proof.
    induction d as [|[k0 v0] r IH]; simpl; [discriminate|].
    destruct (Z.eqb_spec k k0) as [->|N]; [intros [= ->]; now left | auto].
  Qed.

  Lemma in_get d k v : NoDup (keys d) -> In (k, v) d -> idict_get d k = Some v.
  Proof.
    induction d as [|[k0 v0] r IH]; simpl; [tauto|]. intros ND [E|I].
    - inversion E; subst. now rewrite Z.eqb_refl.
    - inversion ND as [|? ? Hn ND']; subst. destruct (Z.eqb_spec k k0) as [->|N]; [|auto].
      exfalso. apply Hn. change k0 with (fst (k0, v)). now apply in_map.
  Qed.

  Lemma mem_iff d k : idict_mem d k = true <-> In k (keys d).
  Proof.
    unfold idict_mem. destruct (idict_get d k) eqn:E.
    - split; [intros _|reflexivity]. apply get_some_in in E. change k with (fst (k, a)). now apply in_map.
    - apply get_none_iff in E. split; [discriminate|tauto].
  Qed.

  Lemma without_id p d : (forall k, In k (keys d) -> p k = false) -> without p d = d.
  Proof.
    induction d as [|[k0 v] r IH]; simpl; [reflexivity|]. intros H.
    rewrite (H k0) by now left. simpl. f_equal. apply IH. intros k I. apply H. now right.
  Qed.

  Lemma del_without d k : NoDup (keys d) -> idict_del d k = without (Z.eqb k) d.
  Proof.
    induction d as [|[k0 v] r IH]; simpl; [reflexivity|]. intros ND. inversion ND as [|? ? Hn ND']; subst.
    destruct (Z.eqb_spec k k0) as [->|N]; simpl.
    - symmetry. apply without_id. intros k I. destruct (Z.eqb_spec k0 k); [subst; tauto | reflexivity].
    - f_equal. auto.
  Qed.

  Lemma set_absent d k v : idict_get d k = None -> idict_set d k v = d ++ [(k, v)].
  Proof.
    induction d as [|[k0 v0] r IH]; simpl; [reflexivity|].
    destruct (Z.eqb_spec k k0); [discriminate|]. intros H. now rewrite IH.
  Qed.

  Lemma get_app_single d k v k' :
    idict_get (d ++ [(k, v)]) k' =
    match idict_get d k' with Some x => Some x | None => if k' =? k then Some v else None end.
  Proof.
    induction d as [|[k0 v0] r IH]; simpl; [reflexivity|].
    destruct (k' =? k0); [reflexivity | apply IH].
  Qed.

  Lemma popitem_some d k v d' : idict_popitem d = Some (k, v, d') -> d = d' ++ [(k, v)].
  Proof.
    unfold idict_popitem. destruct (rev d) as [|[k0 v0] l] eqn:E; [discriminate|]. intros [= -> -> <-].
    rewrite <- (rev_involutive d), E. reflexivity.
  Qed.

  Lemma popitem_none d : idict_popitem d = None -> d = [].
  Proof.
    unfold idict_popitem. destruct (rev d) as [|[k0 v0] l] eqn:E; [|discriminate]. intros _.
    rewrite <- (rev_involutive d), E. reflexivity.
  Qed.

  Lemma keys_app d1 d2 : keys (d1 ++ d2) = keys d1 ++ keys d2.
  Proof. apply map_app. Qed.
End Dict.

(* ================================================================================= 2. sorting *)
Section Sorting.
  Context {B : Type}.
  Variable R : B -> B -> Prop.

  Lemma ss_app (l1 l2 : list B) :
    StronglySorted R (l1 ++ l2) <->
    StronglySorted R l1 /\ StronglySorted R l2 /\ (forall x y, In x l1 -> In y l2 -> R x y).
  Proof.
    induction l1 as [|a l1 IH]; simpl.
    - split; [intros H; repeat split; [constructor | assumption | tauto] | tauto].
    - split.
      + intros H. inversion H as [|? ? S F]; subst. apply IH in S. destruct S as (S1 & S2 & S3).
        rewrite Forall_app in F. destruct F as [F1 F2]. repeat split; [constructor; assumption | assumption |].
        intros x y [->|I] J; [rewrite Forall_forall in F2; auto | auto].
      + intros (S1 & S2 & S3). inversion S1 as [|? ? S F]; subst. constructor.
        * apply IH. repeat split; auto.
        * rewrite Forall_app. split; [assumption|]. rewrite Forall_forall. intros y J. apply S3; [now left | assumption].
  Qed.

  Lemma ss_filter (f : B -> bool) l : StronglySorted R l -> StronglySorted R (filter f l).
  Proof.
    induction 1 as [|a l S IH F]; simpl; [constructor|]. destruct (f a); [|assumption]. constructor; [assumption|].
    rewrite Forall_forall in *. intros x I. apply filter_In in I. apply F. tauto.
  Qed.

  Lemma ss_firstn n l : StronglySorted R l -> StronglySorted R (firstn n l).
  Proof. intros H. rewrite <- (firstn_skipn n l) in H. apply ss_app in H. tauto. Qed.

  Lemma ss_skipn n l : StronglySorted R l -> StronglySorted R (skipn n l).
  Proof. intros H. rewrite <- (firstn_skipn n l) in H. apply ss_app in H. tauto. Qed.

  Lemma ss_split n l x y : StronglySorted R l -> In x (firstn n l) -> In y (skipn n l) -> R x y.
  Proof. intros H. rewrite <- (firstn_skipn n l) in H. apply ss_app in H. destruct H as (_ & _ & H). apply H. Qed.
End Sorting.

Lemma ss_rev {B} (R : B -> B -> Prop) l : StronglySorted R l -> StronglySorted (fun a b => R b a) (rev l).
Proof.
  induction 1 as [|a l S IH F]; simpl; [constructor|]. apply ss_app. repeat split; [assumption | repeat constructor |].
  intros x y I [<-|[]]. rewrite Forall_forall in F. apply F. now apply in_rev.
Qed.

Section TrackSort.
  Context {V : Type}.
  Notation track := (trk_track V).
  Definition le_lu (a b : track) : Prop := tr_lu a <= tr_lu b.

  Lemma insert_perm (x : track) l : Permutation (x :: l) (trk_insert_sorted x l).
  Proof.
    induction l as [|y r IH]; simpl; [reflexivity|]. destruct (tr_lu x <=? tr_lu y); [reflexivity|].
    rewrite perm_swap. now constructor.
  Qed.

  Lemma sorted_perm (l : list track) : Permutation l (trk_sorted l).
  Proof. induction l as [|x r IH]; simpl; [constructor|]. rewrite <- insert_perm. now constructor. Qed.

  Lemma insert_ss (x : track) l : StronglySorted le_lu l -> StronglySorted le_lu (trk_insert_sorted x l).
  Proof.
    induction 1 as [|y r S IH F]; simpl; [repeat constructor|]. destruct (Z.leb_spec (tr_lu x) (tr_lu y)) as [L|G].
    - constructor; [constructor; assumption|]. constructor; [exact L|]. rewrite Forall_forall in *. intros z I.
      unfold le_lu in *. specialize (F z I). lia.
    - constructor; [assumption|]. rewrite Forall_forall in *. intros z I.
      apply (Permutation_in _ (Permutation_sym (insert_perm x r))) in I. destruct I as [<-|I]; [unfold le_lu; lia | auto].
  Qed.

  Lemma sorted_ss (l : list track) : StronglySorted le_lu (trk_sorted l).
  Proof. induction l; simpl; [constructor | now apply insert_ss]. Qed.
End TrackSort.

Lemma ss_map {B C} (f : B -> C) (R : C -> C -> Prop) l :
  StronglySorted (fun a b => R (f a) (f b)) l <-> StronglySorted R (map f l).
Proof.
  induction l as [|a l IH]; simpl; [split; constructor|]. split; intros H; inversion H as [|? ? S F]; subst.
  - constructor; [now apply IH|]. rewrite Forall_forall in *. intros y I. apply in_map_iff in I. destruct I as (x & <- & I). auto.
  - constructor; [now apply IH|]. rewrite Forall_forall in *. intros x I. apply F. now apply in_map.
Qed.

(* ================================================================================= 3. invariant, methods *)
Section Tracker.
  Context {V : Type}.
  Variable nattrs : nat.
  Notation track := (trk_track V).
  Notation tracker := (trk_tracker V).
  Notation call := (trk_call V).

  Definition inset (ms : list Z) (k : Z) : bool := existsb (Z.eqb k) ms.

  Lemma inset_iff ms k : inset ms k = true <-> In k ms.
  Proof.
    unfold inset. rewrite existsb_exists. split.
    - intros (x & I & E). apply Z.eqb_eq in E. now subst.
    - intros I. exists k. split; [assumption | apply Z.eqb_refl].
  Qed.

  Lemma inset_false ms k : inset ms k = false <-> ~ In k ms.
  Proof. rewrite <- inset_iff. destruct (inset ms k); split; congruence. Qed.

  Definition le_lu_kv (a b : Z * track) : Prop := tr_lu (snd a) <= tr_lu (snd b).

  (* what holds in every reachable state *)
  Record inv (st : tracker) : Prop := mkInv {
    inv_nodup : NoDup (keys (t_tracks st));
    inv_key : forall k tr, In (k, tr) (t_tracks st) -> tr_mmsi tr = k;
    inv_oldest : forall k tr, In (k, tr) (t_tracks st) -> exists o, t_oldest st = Some o /\ o <= tr_lu tr;
    inv_sorted : t_ordered st = true -> StronglySorted le_lu_kv (t_tracks st);
    inv_len : forall k tr, In (k, tr) (t_tracks st) -> length (tr_attrs tr) = nattrs }.

  Lemma with_tracks_id (st : tracker) : with_tracks st (t_tracks st) = st.
  Proof. destruct st; reflexivity. Qed.

  Lemma inv_init ttl o : inv (trk_init ttl o).
  Proof. constructor; simpl; try tauto; constructor. Qed.

  (* the propagate calls concerning one MMSI *)
  Definition calls_for (m : Z) (cs : list call) : list call := filter (fun c => m =? tr_mmsi (snd c)) cs.

  Lemma calls_for_app m a b : calls_for m (a ++ b) = calls_for m a ++ calls_for m b.
  Proof. apply filter_app. Qed.

  (* ---------------------------------------------------------------- pop_track / pop_all *)
  Lemma pop_track_spec (st : tracker) m : NoDup (keys (t_tracks st)) ->
    trk_pop_track st m =
    match idict_get (t_tracks st) m with
    | None => (st, [], None)
    | Some tr => (with_tracks st (without (Z.eqb m) (t_tracks st)), [(DELETED, tr)], Some tr)
    end.
  Proof. intros ND. unfold trk_pop_track. destruct (idict_get (t_tracks st) m); [|reflexivity]. now rewrite del_without. Qed.

  Lemma without_without {A} p q (d : idict A) : without p (without q d) = without (fun k => q k || p k) d.
  Proof.
    induction d as [|[k v] r IH]; simpl; [reflexivity|].
    destruct (q k); simpl; [assumption|]. destruct (p k); simpl; [assumption | now f_equal].
  Qed.

  Lemma without_ext {A} p q (d : idict A) : (forall k, p k = q k) -> without p d = without q d.
  Proof. intros E. unfold without. apply filter_ext. intros [k v]. simpl. now rewrite E. Qed.

  Lemma without_ext_in {A} p q (d : idict A) : (forall k, In k (keys d) -> p k = q k) -> without p d = without q d.
  Proof.
    induction d as [|[k v] r IH]; simpl; [reflexivity|]. intros E. rewrite (E k) by now left.
    rewrite IH; [reflexivity|]. intros k' I. apply E. now right.
  Qed.

  Definition deleted_call (d : idict track) (m : Z) : list call :=
    match idict_get d m with Some tr => [(DELETED, tr)] | None => [] end.

  Lemma pop_all_spec ms : forall st : tracker,
    NoDup (keys (t_tracks st)) -> (forall k tr, In (k, tr) (t_tracks st) -> tr_mmsi tr = k) ->
    exists calls, trk_pop_all st ms = (with_tracks st (without (inset ms) (t_tracks st)), calls) /\
      forall m, calls_for m calls = if inset ms m then deleted_call (t_tracks st) m else [].
  Proof.
    induction ms as [|m0 r IH]; intros st ND KEY; simpl.
    - exists []. split; [|reflexivity]. rewrite without_id by reflexivity. now rewrite with_tracks_id.
    - rewrite pop_track_spec by assumption. destruct (idict_get (t_tracks st) m0) as [tr0|] eqn:G.
      + set (st1 := with_tracks st (without (Z.eqb m0) (t_tracks st))).
        destruct (IH st1) as (calls & E & C).
        * simpl. now apply nodup_keys_without.
        * simpl. intros k tr I. apply in_without in I. apply KEY. tauto.
        * rewrite E. exists ((DELETED, tr0) :: calls). split.
          -- simpl. unfold with_tracks. simpl. f_equal. f_equal. rewrite without_without. apply without_ext.
             intros k. unfold inset. simpl. now rewrite (Z.eqb_sym m0 k).
          -- intros m. simpl. rewrite C. simpl. unfold deleted_call. rewrite get_without.
             pose proof (KEY _ _ (get_some_in _ _ _ G)) as K. rewrite K.
             rewrite (Z.eqb_sym m m0). destruct (Z.eqb_spec m0 m) as [->|N]; simpl.
             ++ rewrite G. destruct (inset r m); reflexivity.
             ++ reflexivity.
      + destruct (IH st ND KEY) as (calls & E & C). rewrite E. exists calls. split.
        * simpl. f_equal. f_equal. apply without_ext_in. intros k I. unfold inset. simpl.
          (* m0 has no entry: removing it as well changes nothing *)
          destruct (Z.eqb_spec k m0) as [->|N]; [|reflexivity]. apply get_none_iff in G. tauto.
        * intros m. rewrite C. simpl. destruct (Z.eqb_spec m m0) as [->|N]; simpl; [|reflexivity].
          unfold deleted_call. rewrite G. destruct (inset r m0); reflexivity.
  Qed.

  (* ---------------------------------------------------------------- cleanup *)
  Lemma set_add_in x s m : In m (trk_set_add x s) <-> m = x \/ In m s.
  Proof.
    unfold trk_set_add. destruct (existsb (Z.eqb x) s) eqn:E.
    - split; [tauto|]. intros [->|I]; [|assumption]. apply existsb_exists in E. destruct E as (y & I & E).
      apply Z.eqb_eq in E. now subst.
    - rewrite in_app_iff. simpl. split; [intros [I|[->|[]]]; auto | intros [->|I]; auto].
  Qed.

  Lemma scan_spec t ttl : forall (L : list track) o acc o' del,
    StronglySorted le_lu L -> trk_cleanup_scan t ttl L o acc = (o', del) ->
    (forall m, In m del <-> In m acc \/ exists tr, In tr L /\ tr_mmsi tr = m /\ ttl <= t - tr_lu tr) /\
    ((o' = o /\ forall tr, In tr L -> ttl <= t - tr_lu tr) \/
     (exists lu0, o' = Some lu0 /\ forall tr, In tr L -> t - tr_lu tr < ttl -> lu0 <= tr_lu tr)).
  Proof.
    induction L as [|tr0 r IH]; intros o acc o' del S E; simpl in E.
    - inversion E; subst. split.
      + intros m; split; [tauto | intros [I|(tr & [] & _)]; assumption].
      + left; split; [reflexivity | intros tr []].
    - inversion S as [|? ? S' F]; subst. rewrite Forall_forall in F.
      destruct (Z.ltb_spec (t - tr_lu tr0) ttl) as [Fresh|Stale].
      + inversion E; subst. split.
        * intros m. split; [tauto|]. intros [I|(tr & [<-|I] & _ & St)]; [assumption | lia |].
          specialize (F tr I). unfold le_lu in F. lia.
        * right. exists (tr_lu tr0). split; [reflexivity|]. intros tr [<-|I] _; [lia | apply (F tr I)].
      + destruct (IH _ _ _ _ S' E) as (D & O). split.
        * intros m. rewrite D, set_add_in. split.
          -- intros [[->|I]|(tr & I & K & St)]; [right; exists tr0; simpl; auto | tauto | right; exists tr; simpl; auto].
          -- intros [I|(tr & [<-|I] & K & St)]; [tauto | left; left; now subst | right; exists tr; auto].
        * destruct O as [(-> & A)|(lu0 & -> & A)].
          -- left. split; [reflexivity|]. intros tr [<-|I]; auto.
          -- right. exists lu0. split; [reflexivity|]. intros tr [<-|I] Fr; [lia | auto].
  Qed.

  Lemma in_values (d : idict track) tr : In tr (idict_values d) <-> exists k, In (k, tr) d.
  Proof.
    unfold idict_values. rewrite in_map_iff. split.
    - intros ([k v] & <- & I). now exists k.
    - intros (k & I). now exists (k, tr).
  Qed.

  Lemma cleanup_spec (st : tracker) now : inv st ->
    exists del o' calls,
      trk_cleanup st now =
        (mkTracker (without (inset del) (t_tracks st)) (t_ttl st) (t_ordered st) o' (t_broker st), calls) /\
      inv (mkTracker (without (inset del) (t_tracks st)) (t_ttl st) (t_ordered st) o' (t_broker st)) /\
      (forall m, calls_for m calls = if inset del m then deleted_call (t_tracks st) m else []) /\
      match t_ttl st with
      | None => del = []
      | Some T => forall k tr, In (k, tr) (t_tracks st) -> (In k del <-> T <= now - tr_lu tr)
      end.
  Proof.
    intros I. pose proof I as I0. destruct st as [d ttl ord old br]. destruct I as [ND KEY OLD SORT LEN]. simpl in *.
    assert (NOOP : without (inset []) d = d) by (apply without_id; reflexivity).
    unfold trk_cleanup. simpl. destruct ttl as [T|].
    2:{ exists [], old, []. rewrite NOOP. split; [reflexivity|]. split; [assumption|]. split; reflexivity. }
    destruct old as [o|].
    2:{ exists [], None, []. rewrite NOOP. split; [reflexivity|]. split; [assumption|]. split; [reflexivity|].
        intros k tr H. destruct (OLD _ _ H) as (o & E & _). discriminate. }
    destruct (Z.ltb_spec (now - T) o) as [Early|Late].
    { exists [], (Some o), []. rewrite NOOP. split; [reflexivity|]. split; [assumption|]. split; [reflexivity|].
      intros k tr H. destruct (OLD _ _ H) as (o1 & E & L). inversion E; subst. simpl. split; [tauto | lia]. }
    set (L := if ord then idict_values d else trk_sorted (idict_values d)).
    assert (SS : StronglySorted le_lu L).
    { unfold L. destruct ord; [|apply sorted_ss]. unfold idict_values. apply (proj1 (@ss_map _ _ snd le_lu d)). now apply SORT. }
    assert (MEM : forall tr, In tr L <-> In tr (idict_values d)).
    { intros tr. unfold L. destruct ord; [tauto|]. split; apply Permutation_in;
        [apply Permutation_sym|]; apply sorted_perm. }
    destruct (trk_cleanup_scan now T L (Some o) []) as [o' del] eqn:ES.
    destruct (scan_spec _ _ _ _ _ _ _ SS ES) as (D & O).
    destruct (pop_all_spec del (mkTracker d (Some T) ord (Some o) br) ND KEY) as (calls & E & C).
    simpl in E, C. rewrite E. exists del, o', calls.
    assert (EXACT : forall k tr, In (k, tr) d -> (In k del <-> T <= now - tr_lu tr)).
    { intros k tr H. rewrite D. split.
      - intros [[]|(tr' & I' & K & St)]. apply MEM, in_values in I'. destruct I' as (k' & I').
        pose proof (KEY _ _ I') as K'. assert (k' = k) by congruence. subst k'.
        pose proof (in_get _ _ _ ND I') as G1. pose proof (in_get _ _ _ ND H) as G2. congruence.
      - intros St. right. exists tr. split; [apply MEM, in_values; now exists k|]. split; [now apply KEY | assumption]. }
    split; [reflexivity|]. split; [|split; assumption].
    constructor; simpl.
    - now apply nodup_keys_without.
    - intros k tr H. apply in_without in H. apply KEY. tauto.
    - intros k tr H. apply in_without in H. destruct H as [H NI]. simpl in NI. apply inset_false in NI.
      assert (Fr : now - tr_lu tr < T) by (rewrite (EXACT _ _ H) in NI; lia).
      assert (InL : In tr L) by (apply MEM, in_values; now exists k).
      destruct O as [(-> & A)|(lu0 & -> & A)].
      + specialize (A _ InL). lia.
      + exists lu0. split; [reflexivity | now apply A].
    - intros Eo. apply ss_filter. now apply SORT.
    - intros k tr H. apply in_without in H. apply (LEN k). tauto.
  Qed.

  (* ---------------------------------------------------------------- update *)
  Lemma poplast_spec (d : idict track) : NoDup (keys d) -> d <> [] ->
    exists d' k latest, d = d' ++ [(k, latest)] /\ trk_poplast d = Some (latest, d).
  Proof.
    intros ND NE. unfold trk_poplast. destruct (idict_popitem d) as [[[k v] d']|] eqn:E.
    - apply popitem_some in E. exists d', k, v. split; [assumption|]. rewrite set_absent; [now rewrite <- E|].
      apply get_none_iff. subst d. rewrite keys_app in ND. simpl in ND. apply NoDup_remove_2 in ND.
      rewrite app_nil_r in ND. assumption.
    - apply popitem_none in E. contradiction.
  Qed.

  (* ordered mode: the new timestamp is older than some track *)
  Definition out_of_order (st : tracker) (ts : Z) : Prop :=
    t_ordered st = true /\ exists k tr, In (k, tr) (t_tracks st) /\ ts < tr_lu tr.

  Lemma ensure_spec (st : tracker) ts : inv st ->
    (out_of_order st ts /\ trk_ensure_timestamp_constraints st ts = (st, Some (Py ValueError))) \/
    (~ out_of_order st ts /\ trk_ensure_timestamp_constraints st ts = (st, None)).
  Proof.
    intros I. unfold trk_ensure_timestamp_constraints, out_of_order. destruct (t_ordered st) eqn:EO; simpl.
    2:{ right. split; [intros [X _]; discriminate | reflexivity]. }
    destruct (t_tracks st) as [|kv0 r] eqn:ED.
    { right. split; [intros (_ & k & tr & [] & _) | reflexivity]. }
    rewrite <- ED. destruct (poplast_spec (t_tracks st)) as (d' & k & latest & Ed & Ep);
      [apply I | rewrite ED; discriminate|].
    rewrite Ep. rewrite with_tracks_id. destruct (Z.ltb_spec ts (tr_lu latest)) as [Lt|Ge].
    - left. split; [|reflexivity]. split; [reflexivity|]. exists k, latest.
      split; [rewrite Ed; apply in_or_app; right; now left | assumption].
    - right. split; [|reflexivity]. intros (_ & k1 & tr1 & I1 & Lt).
      pose proof (inv_sorted _ I EO) as S. rewrite Ed in S, I1. apply ss_app in S. destruct S as (_ & _ & S).
      apply in_app_or in I1. destruct I1 as [I1|[E1|[]]].
      + specialize (S _ _ I1 (or_introl eq_refl)). unfold le_lu_kv in S. simpl in S. lia.
      + inversion E1; subst. lia.
  Qed.

  Lemma set_fields_length (cur : list (option V)) : forall ms, length (trk_set_fields cur ms) = length cur.
  Proof. induction cur as [|c cr IH]; intros [|a ar]; simpl; auto. Qed.

  Lemma merge_fields_length (old : list (option V)) : forall new, length (trk_merge_fields old new) = length old.
  Proof. induction old as [|c cr IH]; intros [|a ar]; simpl; auto. Qed.

  Definition msg_ts (ts : option Z) (now : Z) : Z := match ts with Some t => t | None => now end.

  Lemma msg_to_track_facts (m : trk_msg V) ts now :
    let new := trk_msg_to_track nattrs m ts now in
    tr_mmsi new = m_mmsi m /\ tr_lu new = msg_ts ts now /\ length (tr_attrs new) = nattrs.
  Proof.
    unfold trk_msg_to_track, msg_ts. destruct ts; simpl; rewrite set_fields_length, repeat_length; auto.
  Qed.

  Definition upd_result (st : tracker) (m : Z) (new : track) : track :=
    match idict_get (t_tracks st) m with Some old => trk_update_track old new | None => new end.
  Definition upd_event (st : tracker) (m : Z) : trk_event :=
    if idict_mem (t_tracks st) m then UPDATED else CREATED.
  Definition older_than_track (st : tracker) (m ts : Z) : Prop :=
    exists old, idict_get (t_tracks st) m = Some old /\ ts < tr_lu old.

  (* the state after insert_or_update of an accepted update *)
  Definition after_insert (st : tracker) (m : Z) (new : track) : tracker :=
    trk_set_oldest_timestamp
      (with_tracks st (without (Z.eqb m) (t_tracks st) ++ [(m, upd_result st m new)])) (tr_lu new).

  (* insert_or_update lowers the cache before insert_track and once more after it: the second time changes nothing *)
  Lemma set_oldest_absorb (st : tracker) d ts :
    trk_set_oldest_timestamp (with_tracks (trk_set_oldest_timestamp st ts) d) ts =
    trk_set_oldest_timestamp (with_tracks st d) ts.
  Proof.
    unfold trk_set_oldest_timestamp, with_tracks, with_oldest. destruct (t_oldest st) as [o|]; simpl.
    - now rewrite <- Z.min_assoc, Z.min_id.
    - now rewrite Z.min_id.
  Qed.

  Lemma set_oldest_tracks (st : tracker) ts : t_tracks (trk_set_oldest_timestamp st ts) = t_tracks st.
  Proof. unfold trk_set_oldest_timestamp. destruct (t_oldest st); reflexivity. Qed.

  Lemma insert_or_update_spec (st : tracker) m new : inv st ->
    (older_than_track st m (tr_lu new) /\ trk_insert_or_update st m new = (st, [], Some (Py ValueError))) \/
    (~ older_than_track st m (tr_lu new) /\
     trk_insert_or_update st m new = (after_insert st m new, [(upd_event st m, upd_result st m new)], None)).
  Proof.
    intros I. unfold trk_insert_or_update, after_insert, upd_event, upd_result, older_than_track, idict_mem.
    destruct (idict_get (t_tracks st) m) as [old|] eqn:G.
    - unfold trk_update_track_m. rewrite G. destruct (Z.ltb_spec (tr_lu new) (tr_lu old)).
      + left. split; [exists old; auto | reflexivity].
      + right. split; [intros (o & E & L); inversion E; subst; lia|].
        rewrite del_without by apply I.
        rewrite set_absent by (rewrite get_without, Z.eqb_refl; reflexivity). reflexivity.
    - right. split; [intros (o & E & _); discriminate|]. unfold trk_insert_track.
      rewrite set_oldest_tracks, set_oldest_absorb.
      rewrite set_absent by assumption. rewrite without_id; [reflexivity|].
      intros k Ik. destruct (Z.eqb_spec m k); [subst; apply get_none_iff in G; tauto | reflexivity].
  Qed.

  Lemma upd_result_facts (st : tracker) m new : inv st -> tr_mmsi new = m -> length (tr_attrs new) = nattrs ->
    tr_mmsi (upd_result st m new) = m /\ tr_lu (upd_result st m new) = tr_lu new /\
    length (tr_attrs (upd_result st m new)) = nattrs.
  Proof.
    intros I Hm Hl. unfold upd_result. destruct (idict_get (t_tracks st) m) as [old|] eqn:G; [|auto].
    simpl. rewrite merge_fields_length. repeat split; auto. apply (inv_len _ I m). now apply get_some_in.
  Qed.

  Lemma inv_after_insert (st : tracker) m new : inv st -> tr_mmsi new = m -> length (tr_attrs new) = nattrs ->
    ~ out_of_order st (tr_lu new) -> inv (after_insert st m new).
  Proof.
    intros I Hm Hl NO. destruct (upd_result_facts st m new I Hm Hl) as (Rm & Rlu & Rlen).
    unfold after_insert. set (tr' := upd_result st m new) in *. clearbody tr'.
    destruct I as [ND KEY OLD SORT LEN]. unfold out_of_order in NO. destruct st as [d ttl ord old br]. simpl in *.
    assert (IN : forall k tr, In (k, tr) (without (Z.eqb m) d ++ [(m, tr')]) ->
                 (In (k, tr) d /\ k <> m) \/ (k = m /\ tr = tr')).
    { intros k tr H. apply in_app_or in H. destruct H as [H|[H|[]]].
      - apply in_without in H. simpl in H. left. split; [tauto|]. destruct H as [_ H]. apply Z.eqb_neq in H. congruence.
      - inversion H; subst. now right. }
    assert (O2 : exists o2, t_oldest (trk_set_oldest_timestamp
                   (with_tracks (mkTracker d ttl ord old br) (without (Z.eqb m) d ++ [(m, tr')])) (tr_lu new)) = Some o2 /\
                 o2 <= tr_lu new /\ (forall o, old = Some o -> o2 <= o)).
    { unfold trk_set_oldest_timestamp. simpl. destruct old as [o|]; simpl.
      - exists (Z.min o (tr_lu new)). split; [reflexivity|]. split; [lia|]. intros o0 [= <-]. lia.
      - exists (tr_lu new). split; [reflexivity|]. split; [lia | discriminate]. }
    destruct O2 as (o2 & EO2 & LE2 & LEO).
    assert (TR : t_tracks (trk_set_oldest_timestamp
                   (with_tracks (mkTracker d ttl ord old br) (without (Z.eqb m) d ++ [(m, tr')])) (tr_lu new))
                 = without (Z.eqb m) d ++ [(m, tr')]).
    { unfold trk_set_oldest_timestamp. simpl. destruct old; reflexivity. }
    assert (OR : t_ordered (trk_set_oldest_timestamp
                   (with_tracks (mkTracker d ttl ord old br) (without (Z.eqb m) d ++ [(m, tr')])) (tr_lu new)) = ord).
    { unfold trk_set_oldest_timestamp. simpl. destruct old; reflexivity. }
    constructor; rewrite ?TR, ?OR.
    - rewrite keys_app. simpl. apply (Permutation_NoDup (Permutation_cons_append _ _)). constructor.
      + rewrite keys_without, filter_In, Z.eqb_refl. simpl. intros [_ X]. discriminate.
      + now apply nodup_keys_without.
    - intros k tr H. destruct (IN _ _ H) as [[H1 _]|[-> ->]]; [now apply KEY | assumption].
    - intros k tr H. rewrite EO2. exists o2. split; [reflexivity|]. destruct (IN _ _ H) as [[H1 _]|[-> ->]]; [|lia].
      destruct (OLD _ _ H1) as (o & Eo & Lo). specialize (LEO _ Eo). lia.
    - intros Eo. apply ss_app. split; [apply ss_filter; now apply SORT|]. split; [repeat constructor|].
      intros x y Hx [<-|[]]. apply in_without in Hx. destruct x as [kx trx]. unfold le_lu_kv. simpl.
      destruct (Z.le_gt_cases (tr_lu trx) (tr_lu new)) as [L|G]; [lia|]. exfalso. apply NO. split; [assumption|].
      exists kx, trx. split; [tauto | lia].
    - intros k tr H. destruct (IN _ _ H) as [[H1 _]|[-> ->]]; [now apply (LEN k) | assumption].
  Qed.

  (* an update is rejected iff it is older than its own track or, in ordered mode, older than any track *)
  Definition upd_rejected (st : tracker) (m ts : Z) : Prop := older_than_track st m ts \/ out_of_order st ts.

  Lemma update_spec (st : tracker) now (msg : trk_msg V) ts : inv st ->
    let new := trk_msg_to_track nattrs msg ts now in
    let m := m_mmsi msg in
    (upd_rejected st m (tr_lu new) /\ trk_update nattrs st now msg ts = (st, [], Some (Py ValueError))) \/
    (~ upd_rejected st m (tr_lu new) /\ inv (after_insert st m new) /\
     trk_update nattrs st now msg ts =
       (fst (trk_cleanup (after_insert st m new) now),
        (upd_event st m, upd_result st m new) :: snd (trk_cleanup (after_insert st m new) now), None)).
  Proof.
    intros I new m. unfold trk_update. fold new. fold m. unfold upd_rejected.
    destruct (msg_to_track_facts msg ts now) as (Fm & _ & Fl). fold new in Fm, Fl.
    destruct (ensure_spec st (tr_lu new) I) as [[OO E]|[NO E]]; rewrite E.
    - left. split; [now right | reflexivity].
    - destruct (insert_or_update_spec st m new I) as [[OT E2]|[NT E2]]; rewrite E2.
      + left. split; [now left | reflexivity].
      + right. split; [tauto|]. split; [now apply inv_after_insert|].
        destruct (trk_cleanup (after_insert st m new) now) as [st3 c3]. reflexivity.
  Qed.

  Lemma inv_without (st : tracker) p : inv st -> inv (with_tracks st (without p (t_tracks st))).
  Proof.
    intros [ND KEY OLD SORT LEN]. constructor; simpl.
    - now apply nodup_keys_without.
    - intros k tr H. apply in_without in H. apply KEY. tauto.
    - intros k tr H. apply in_without in H. apply (OLD k). tauto.
    - intros E. apply ss_filter. auto.
    - intros k tr H. apply in_without in H. apply (LEN k). tauto.
  Qed.

  Lemma inv_with_broker (st : tracker) b : inv st -> inv (with_broker st b).
  Proof. intros [ND KEY OLD SORT LEN]. constructor; simpl; auto. Qed.

  (* assignments to ttl_in_seconds / stream_is_ordered = False: the table is untouched, and a table that satisfies the
     invariants of ordered mode satisfies those of unordered mode *)
  Lemma inv_with_ttl (st : tracker) t : inv st -> inv (with_ttl st t).
  Proof. intros [ND KEY OLD SORT LEN]. constructor; simpl; auto. Qed.

  Lemma inv_unordered (st : tracker) : inv st -> inv (with_ordered st false).
  Proof. intros [ND KEY OLD SORT LEN]. constructor; simpl; auto. discriminate. Qed.

  (* The ordered-mode caveat of the public route below update(): insert_or_update() does not check the order of the
     timestamps, so in ordered mode the caller must not hand it a timestamp older than a track (otherwise the unchanged
     code itself leaves the table unsorted).  Every other operation: no condition. *)
  Definition op_ok (st : tracker) (op : trk_op V) : Prop :=
    match op with
    | OpInsertOrUpdate now msg ts => ~ out_of_order st (tr_lu (trk_msg_to_track nattrs msg ts now))
    | _ => True
    end.

  Theorem step_inv (st : tracker) op : inv st -> op_ok st op -> inv (r_state (trk_step nattrs st op)).
  Proof.
    intros I OKop. destruct op as [now msg ts|now|m|ev cb|ev cb|now msg ts|newttl|]; simpl.
    - destruct (update_spec st now msg ts I) as [[_ E]|(_ & I2 & E)]; rewrite E; simpl; [assumption|].
      destruct (cleanup_spec _ now I2) as (del & o' & calls & Ec & Ic & _). rewrite Ec. exact Ic.
    - destruct (cleanup_spec _ now I) as (del & o' & calls & Ec & Ic & _). rewrite Ec. exact Ic.
    - rewrite pop_track_spec by apply I. destruct (idict_get (t_tracks st) m); simpl; [now apply inv_without | assumption].
    - now apply inv_with_broker.
    - now apply inv_with_broker.
    - destruct (msg_to_track_facts msg ts now) as (Fm & _ & Fl).
      destruct (insert_or_update_spec st (m_mmsi msg) (trk_msg_to_track nattrs msg ts now) I) as [[_ E]|[_ E]]; rewrite E; simpl;
        [assumption | now apply inv_after_insert].
    - now apply inv_with_ttl.
    - now apply inv_unordered.
  Qed.

  (* the states reachable from a fresh tracker *)
  Inductive reachable : tracker -> Prop :=
  | reach_init ttl ordered : reachable (trk_init ttl ordered)
  | reach_step st op : reachable st -> op_ok st op -> reachable (r_state (trk_step nattrs st op)).

  Lemma reachable_inv st : reachable st -> inv st.
  Proof. induction 1; [apply inv_init | now apply step_inv]. Qed.

  (* ================================================================================= 4. C13 *)
  Definition is_deleted (c : call) : bool := trk_event_eqb (fst c) DELETED.
  (* last_updated of the tracks handed to the DELETED callbacks of one operation *)
  Definition deleted_lus (calls : list call) : list Z := map (fun c => tr_lu (snd c)) (filter is_deleted calls).
  Definition deleted_mmsis (calls : list call) : list Z := map (fun c => tr_mmsi (snd c)) (filter is_deleted calls).

  Lemma cleanup_calls (d : idict track) del (calls : list call) :
    (forall m, calls_for m calls = if inset del m then deleted_call d m else []) ->
    forall c, In c calls ->
      fst c = DELETED /\ In (tr_mmsi (snd c)) del /\ idict_get d (tr_mmsi (snd c)) = Some (snd c).
  Proof.
    intros C c I. assert (J : In c (calls_for (tr_mmsi (snd c)) calls)).
    { unfold calls_for. apply filter_In. split; [assumption | apply Z.eqb_refl]. }
    rewrite C in J. destruct (inset del (tr_mmsi (snd c))) eqn:E; [|destruct J].
    unfold deleted_call in J. destruct (idict_get d (tr_mmsi (snd c))) as [tr|] eqn:G; [|destruct J].
    apply inset_iff in E. destruct J as [<-|[]]. simpl in *. auto.
  Qed.

  Lemma calls_nil (calls : list call) : (forall m, calls_for m calls = []) -> calls = [].
  Proof.
    destruct calls as [|c r]; [reflexivity|]. intros H. specialize (H (tr_mmsi (snd c))). simpl in H.
    rewrite Z.eqb_refl in H. discriminate.
  Qed.

  Lemma cleanup_expiry (st : tracker) now T : inv st -> t_ttl st = Some T ->
    Forall (fun tr => now - tr_lu tr < T) (trk_tracks (fst (trk_cleanup st now))) /\
    Forall (fun c => fst c = DELETED /\ T <= now - tr_lu (snd c)) (snd (trk_cleanup st now)).
  Proof.
    intros I ET. destruct (cleanup_spec st now I) as (del & o' & calls & Ec & _ & C & X). rewrite Ec. rewrite ET in X.
    simpl. split; rewrite Forall_forall.
    - intros tr H. unfold trk_tracks in H. simpl in H. apply in_values in H. destruct H as (k & H).
      apply in_without in H. destruct H as [H N]. simpl in N. apply inset_false in N. rewrite (X _ _ H) in N. lia.
    - intros c H. destruct (cleanup_calls _ _ _ C c H) as (E & D & G). split; [assumption|].
      apply get_some_in in G. now apply (X _ _ G).
  Qed.

  Lemma after_insert_cfg (st : tracker) m new :
    t_ttl (after_insert st m new) = t_ttl st /\ t_ordered (after_insert st m new) = t_ordered st /\
    t_broker (after_insert st m new) = t_broker st /\
    t_tracks (after_insert st m new) = without (Z.eqb m) (t_tracks st) ++ [(m, upd_result st m new)].
  Proof. unfold after_insert, trk_set_oldest_timestamp. simpl. destruct (t_oldest st); simpl; auto. Qed.

  Lemma upd_event_not_deleted (st : tracker) m tr : is_deleted (upd_event st m, tr) = false.
  Proof. unfold is_deleted, upd_event. simpl. destruct (idict_mem (t_tracks st) m); reflexivity. Qed.

  Lemma deleted_lus_all (calls : list call) (P : Z -> Prop) :
    Forall (fun c => fst c = DELETED /\ P (tr_lu (snd c))) calls -> Forall P (deleted_lus calls).
  Proof.
    unfold deleted_lus. rewrite !Forall_forall. intros H lu I. apply in_map_iff in I. destruct I as (c & <- & I).
    apply filter_In in I. apply H. tauto.
  Qed.

  (* C13, TTL configured: after cleanup() and after every accepted update() no remaining track has reached the TTL
     and every track removed by expiry had *)
  Theorem expiry_exact (st : tracker) op now T : reachable st -> t_ttl st = Some T ->
    (op = OpCleanup now \/ exists msg ts, op = OpUpdate now msg ts) ->
    let res := trk_step nattrs st op in
    r_exn res = None ->
    sp_ttl_ok T now (map (@tr_lu V) (trk_tracks (r_state res))) (deleted_lus (r_calls res)).
  Proof.
    intros R ET Hop res. apply reachable_inv in R. subst res. unfold sp_ttl_ok. rewrite Forall_map.
    destruct Hop as [->|(msg & ts & ->)]; simpl.
    - intros _. destruct (cleanup_expiry st now T R ET) as (A & B).
      destruct (trk_cleanup st now) as [st' calls]. simpl in *. split; [assumption|].
      apply deleted_lus_all. exact B.
    - destruct (update_spec st now msg ts R) as [[_ E]|(_ & I2 & E)]; rewrite E; simpl; [discriminate|]. intros _.
      destruct (after_insert_cfg st (m_mmsi msg) (trk_msg_to_track nattrs msg ts now)) as (Ettl & _).
      rewrite ET in Ettl. destruct (cleanup_expiry _ now T I2 Ettl) as (A & B). split; [assumption|].
      unfold deleted_lus. simpl. rewrite upd_event_not_deleted. apply deleted_lus_all. exact B.
  Qed.

  (* C13, TTL None: update() and cleanup() never remove a track *)
  Theorem no_ttl_no_expiry (st : tracker) op : reachable st -> t_ttl st = None ->
    (forall m, op <> OpPop m) ->
    let res := trk_step nattrs st op in
    deleted_mmsis (r_calls res) = [] /\ incl (keys (t_tracks st)) (keys (t_tracks (r_state res))).
  Proof.
    intros R ET NP res. apply reachable_inv in R. subst res.
    assert (CL : forall st2 now, inv st2 -> t_ttl st2 = None -> trk_cleanup st2 now = (st2, [])).
    { intros st2 now _ E2. unfold trk_cleanup. now rewrite E2. }
    destruct op as [now msg ts|now|m|ev cb|ev cb|now msg ts|newttl|]; simpl.
    - destruct (update_spec st now msg ts R) as [[_ E]|(_ & I2 & E)]; rewrite E; simpl.
      + split; [reflexivity | apply incl_refl].
      + destruct (after_insert_cfg st (m_mmsi msg) (trk_msg_to_track nattrs msg ts now)) as (Ettl & _ & _ & Etr).
        rewrite ET in Ettl. rewrite (CL _ now I2 Ettl). simpl. unfold deleted_mmsis. simpl.
        rewrite upd_event_not_deleted. split; [reflexivity|]. rewrite Etr, keys_app, keys_without. simpl.
        intros k Ik. apply in_or_app. destruct (Z.eqb_spec (m_mmsi msg) k) as [->|N]; [right; now left | left].
        apply filter_In. split; [assumption|]. apply negb_true_iff. now apply Z.eqb_neq.
    - rewrite (CL _ now R ET). simpl. split; [reflexivity | apply incl_refl].
    - exfalso. now apply (NP m).
    - split; [reflexivity | apply incl_refl].
    - split; [reflexivity | apply incl_refl].
    - destruct (insert_or_update_spec st (m_mmsi msg) (trk_msg_to_track nattrs msg ts now) R) as [[_ E]|[_ E]]; rewrite E; simpl.
      + split; [reflexivity | apply incl_refl].
      + destruct (after_insert_cfg st (m_mmsi msg) (trk_msg_to_track nattrs msg ts now)) as (_ & _ & _ & Etr).
        unfold deleted_mmsis. simpl. rewrite upd_event_not_deleted. split; [reflexivity|]. rewrite Etr, keys_app, keys_without. simpl.
        intros k Ik. apply in_or_app. destruct (Z.eqb_spec (m_mmsi msg) k) as [->|N]; [right; now left | left].
        apply filter_In. split; [assumption|]. apply negb_true_iff. now apply Z.eqb_neq.
    - split; [reflexivity | apply incl_refl].
    - split; [reflexivity | apply incl_refl].
  Qed.

  (* ================================================================================= 6. C14 *)
  Definition mlu (tr : track) : Z * Z := (tr_mmsi tr, tr_lu tr).

  Lemma nodup_app_l {B} (a b : list B) : NoDup (a ++ b) -> NoDup a.
  Proof.
    induction a as [|x a IH]; simpl; [constructor|]. intros H. inversion H as [|? ? N ND]; subst. constructor; [|auto].
    intros I. apply N. apply in_or_app. now left.
  Qed.

  Lemma nodup_app_disj {B} (a b : list B) x : NoDup (a ++ b) -> In x a -> In x b -> False.
  Proof.
    induction a as [|y a IH]; simpl; [tauto|]. intros H [->|I] J; inversion H as [|? ? N ND]; subst.
    - apply N. apply in_or_app. now right.
    - now apply IH.
  Qed.

  Lemma top_n_of_split n (all r rest : list (Z * Z)) :
    Permutation all (r ++ rest) -> NoDup (map fst all) ->
    (forall x y, In x r -> In y rest -> snd y <= snd x) ->
    Z.of_nat (length r) = Z.min n (Z.of_nat (length all)) -> sp_top_n n all r.
  Proof.
    intros P ND LE LEN. unfold sp_top_n.
    assert (ND2 : NoDup (map fst r ++ map fst rest)).
    { rewrite <- map_app. eapply Permutation_NoDup; [apply Permutation_map, P | assumption]. }
    split; [assumption|]. split; [now apply nodup_app_l in ND2|]. split.
    - intros x I. apply (Permutation_in _ (Permutation_sym P)). apply in_or_app. now left.
    - intros x y Ix Iy N. apply (Permutation_in _ P) in Iy. apply in_app_or in Iy. destruct Iy as [Iy|Iy]; [|auto].
      exfalso. apply N. now apply in_map.
  Qed.

  Lemma enum_take_firstn (L : list track) : forall n i, trk_enum_take n i L = firstn (Z.to_nat (n - i)) L.
  Proof.
    induction L as [|tr r IH]; intros n i; simpl; [now rewrite firstn_nil|].
    destruct (Z.leb_spec n i) as [Le|Gt].
    - replace (Z.to_nat (n - i)) with O by lia. reflexivity.
    - replace (Z.to_nat (n - i)) with (S (Z.to_nat (n - (i + 1)))) by lia. simpl. now rewrite IH.
  Qed.

  Lemma values_mmsi_keys (st : tracker) : inv st -> map (@tr_mmsi V) (idict_values (t_tracks st)) = keys (t_tracks st).
  Proof.
    intros I. unfold idict_values, keys. rewrite map_map. apply map_ext_in. intros [k tr] H. simpl.
    now apply (inv_key _ I).
  Qed.

  Lemma mlu_fst (l : list track) : map fst (map mlu l) = map (@tr_mmsi V) l.
  Proof. rewrite map_map. reflexivity. Qed.

  Theorem n_latest_correct (st : tracker) n : reachable st -> 0 <= n ->
    sp_top_n n (map mlu (trk_tracks st)) (map mlu (trk_n_latest_tracks st n)) /\
    (t_ordered st = false -> sp_newest_first (map mlu (trk_n_latest_tracks st n))) /\
    incl (trk_n_latest_tracks st n) (trk_tracks st).
  Proof.
    intros R Hn. apply reachable_inv in R. unfold trk_n_latest_tracks, trk_tracks, trk_tracks_ordered_after_insertion.
    set (vals := idict_values (t_tracks st)).
    assert (LV : length (t_tracks st) = length vals) by (unfold vals, idict_values; now rewrite map_length).
    rewrite LV. set (len := Z.of_nat (length vals)).
    assert (NDV : NoDup (map fst (map mlu vals))).
    { rewrite mlu_fst. unfold vals. rewrite values_mmsi_keys by assumption. apply R. }
    destruct (t_ordered st) eqn:EO.
    - (* ordered: the last n of the insertion order, which is sorted by last_updated *)
      unfold py_slice_from. fold len. replace (len - Z.min n len <? 0) with false by (symmetry; apply Z.ltb_ge; lia).
      set (k := Z.to_nat (len - Z.min n len)).
      assert (SS : StronglySorted le_lu vals).
      { unfold vals, idict_values. apply (proj1 (@ss_map _ _ snd le_lu (t_tracks st))). now apply (inv_sorted _ R). }
      split; [|split; [discriminate|]].
      + apply top_n_of_split with (rest := map mlu (firstn k vals)).
        * rewrite <- (firstn_skipn k vals) at 1. rewrite map_app. apply Permutation_app_comm.
        * assumption.
        * intros x y Ix Iy. apply in_map_iff in Ix. destruct Ix as (tx & <- & Ix).
          apply in_map_iff in Iy. destruct Iy as (ty & <- & Iy). simpl.
          apply (ss_split le_lu k vals ty tx SS Iy Ix).
        * rewrite !map_length, skipn_length. unfold k, len. lia.
      + intros x Ix. rewrite <- (firstn_skipn k vals). apply in_or_app. now right.
    - (* unordered: the first n of the tracks sorted newest first *)
      rewrite enum_take_firstn. rewrite Z.sub_0_r. set (k := Z.to_nat (Z.min n len)).
      set (L := rev (trk_sorted vals)).
      assert (PL : Permutation vals L).
      { unfold L. rewrite <- Permutation_rev. apply sorted_perm. }
      assert (SL : StronglySorted (fun a b => le_lu b a) L) by (apply ss_rev, sorted_ss).
      split; [|split].
      + apply top_n_of_split with (rest := map mlu (skipn k L)).
        * rewrite <- map_app, firstn_skipn. now apply Permutation_map.
        * assumption.
        * intros x y Ix Iy. apply in_map_iff in Ix. destruct Ix as (tx & <- & Ix).
          apply in_map_iff in Iy. destruct Iy as (ty & <- & Iy). simpl.
          apply (ss_split (fun a b => le_lu b a) k L tx ty SL Ix Iy).
        * rewrite !map_length, firstn_length. rewrite <- (Permutation_length PL). unfold k, len. lia.
      + intros _. unfold sp_newest_first. apply (proj1 (@ss_map _ _ mlu (fun a b => snd b <= snd a) (firstn k L))).
        simpl. apply ss_firstn. exact SL.
      + intros x Ix. apply (Permutation_in _ (Permutation_sym PL)). rewrite <- (firstn_skipn k L).
        apply in_or_app. now left.
  Qed.

  (* ================================================================================= 7. C15 *)
  Definition abs_ev (e : trk_event) : sp_event :=
    match e with CREATED => SCreated | UPDATED => SUpdated | DELETED => SDeleted end.
  (* the propagate calls of an operation as the (event, mmsi) trace the specification talks about *)
  Definition abs_calls (cs : list call) : list (sp_event * Z) := map (fun c => (abs_ev (fst c), tr_mmsi (snd c))) cs.

  Lemma events_of_calls m (cs : list call) :
    sp_events_of m (abs_calls cs) = map (fun c => abs_ev (fst c)) (calls_for m cs).
  Proof.
    unfold sp_events_of, abs_calls, calls_for. induction cs as [|c r IH]; simpl; [reflexivity|].
    rewrite (Z.eqb_sym (tr_mmsi (snd c)) m). destruct (m =? tr_mmsi (snd c)); simpl; now rewrite IH.
  Qed.

  (* the target of an accepted update *)
  Definition step_target (op : trk_op V) (res : trk_result V) : option Z :=
    match op with
    | OpUpdate _ msg _ | OpInsertOrUpdate _ msg _ => match r_exn res with None => Some (m_mmsi msg) | Some _ => None end
    | _ => None
    end.

  Lemma mem_without {A} p (d : idict A) k : idict_mem (without p d) k = negb (p k) && idict_mem d k.
  Proof. unfold idict_mem. rewrite get_without. destruct (p k); reflexivity. Qed.

  Lemma cleanup_events (d : idict track) del (calls : list call) m :
    (forall m, calls_for m calls = if inset del m then deleted_call d m else []) ->
    map (fun c => abs_ev (fst c)) (calls_for m calls) =
    sp_expected_events None m (idict_mem d m) (idict_mem (without (inset del) d) m).
  Proof.
    intros C. rewrite C, mem_without. unfold sp_expected_events, deleted_call, idict_mem.
    destruct (inset del m); simpl; destruct (idict_get d m); reflexivity.
  Qed.

  Lemma expected_other m0 m b a : m <> m0 -> sp_expected_events (Some m0) m b a = sp_expected_events None m b a.
  Proof. intros N. unfold sp_expected_events. apply Z.eqb_neq in N. now rewrite N. Qed.

  Theorem step_events (st : tracker) op m : inv st ->
    let res := trk_step nattrs st op in
    sp_events_of m (abs_calls (r_calls res)) =
      sp_expected_events (step_target op res) m (idict_mem (t_tracks st) m) (idict_mem (t_tracks (r_state res)) m) /\
    (idict_mem (t_tracks st) m = false -> step_target op res <> Some m ->
     idict_mem (t_tracks (r_state res)) m = false).
  Proof.
    intros I res. subst res. rewrite events_of_calls.
    assert (SAME : forall b, [] = sp_expected_events None m b b) by (intros []; reflexivity).
    destruct op as [now msg ts|now|m1|ev cb|ev cb|now msg ts|newttl|]; simpl.
    - destruct (update_spec st now msg ts I) as [[_ E]|(_ & I2 & E)]; rewrite E; simpl; [split; [apply SAME | auto]|].
      set (m0 := m_mmsi msg) in *. set (new := trk_msg_to_track nattrs msg ts now) in *.
      destruct (upd_result_facts st m0 new I) as (Rm & _); [apply msg_to_track_facts | apply msg_to_track_facts|].
      destruct (after_insert_cfg st m0 new) as (_ & _ & _ & Etr).
      destruct (cleanup_spec _ now I2) as (del & o' & calls & Ec & _ & C & _). rewrite Ec. simpl.
      pose proof (cleanup_events _ _ _ m C) as CE. rewrite Rm. rewrite Etr in CE |- *.
      assert (M2 : idict_mem (without (Z.eqb m0) (t_tracks st) ++ [(m0, upd_result st m0 new)]) m
                   = (m =? m0) || idict_mem (t_tracks st) m).
      { unfold idict_mem. rewrite get_app_single, get_without, (Z.eqb_sym m0 m).
        destruct (m =? m0); simpl; [reflexivity|]. destruct (idict_get (t_tracks st) m); reflexivity. }
      rewrite M2 in CE. destruct (Z.eqb_spec m m0) as [->|N]; simpl in *.
      + rewrite CE. split; [|congruence]. unfold upd_event.
        destruct (idict_mem (t_tracks st) m0); reflexivity.
      + rewrite CE. split; [reflexivity|]. intros B _. rewrite mem_without, M2.
        rewrite B. apply andb_false_r.
    - destruct (cleanup_spec _ now I) as (del & o' & calls & Ec & _ & C & _). rewrite Ec. simpl.
      split; [now apply cleanup_events|]. intros B _. rewrite mem_without, B. apply andb_false_r.
    - rewrite pop_track_spec by apply I. destruct (idict_get (t_tracks st) m1) as [tr|] eqn:G; simpl; [|split; [apply SAME | auto]].
      rewrite mem_without. rewrite (inv_key _ I _ _ (get_some_in _ _ _ G)). rewrite (Z.eqb_sym m1 m).
      destruct (Z.eqb_spec m m1) as [->|N]; simpl.
      + unfold idict_mem. rewrite G. split; [reflexivity | discriminate].
      + split; [apply SAME | auto].
    - split; [apply SAME | auto].
    - split; [apply SAME | auto].
    - set (m0 := m_mmsi msg). set (new := trk_msg_to_track nattrs msg ts now).
      destruct (insert_or_update_spec st m0 new I) as [[_ E]|[_ E]]; rewrite E; simpl; [split; [apply SAME | auto]|].
      destruct (upd_result_facts st m0 new I) as (Rm & _); [apply msg_to_track_facts | apply msg_to_track_facts|].
      destruct (after_insert_cfg st m0 new) as (_ & _ & _ & Etr). rewrite Etr, Rm.
      assert (M2 : idict_mem (without (Z.eqb m0) (t_tracks st) ++ [(m0, upd_result st m0 new)]) m
                   = (m =? m0) || idict_mem (t_tracks st) m).
      { unfold idict_mem. rewrite get_app_single, get_without, (Z.eqb_sym m0 m).
        destruct (m =? m0); simpl; [reflexivity|]. destruct (idict_get (t_tracks st) m); reflexivity. }
      rewrite M2. destruct (Z.eqb_spec m m0) as [->|N]; simpl.
      + split; [|congruence]. unfold upd_event. destruct (idict_mem (t_tracks st) m0); reflexivity.
      + split; [|auto]. destruct (idict_mem (t_tracks st) m); reflexivity.
    - split; [apply SAME | auto].
    - split; [apply SAME | auto].
  Qed.

  Lemma auto_run_app a l1 l2 :
    sp_auto_run a (l1 ++ l2) = match sp_auto_run a l1 with Some a' => sp_auto_run a' l2 | None => None end.
  Proof.
    revert a. induction l1 as [|e r IH]; intros a; simpl; [reflexivity|]. destruct (sp_auto_step a e); [apply IH | reflexivity].
  Qed.

  Lemma events_of_app m t1 t2 : sp_events_of m (t1 ++ t2) = sp_events_of m t1 ++ sp_events_of m t2.
  Proof. unfold sp_events_of. now rewrite filter_app, map_app. Qed.

  Lemma expected_run target m b a : (b = false -> target <> Some m -> a = false) ->
    sp_auto_run b (sp_expected_events target m b a) = Some a.
  Proof.
    intros H. unfold sp_expected_events. destruct target as [m0|].
    - destruct (Z.eqb_spec m m0) as [->|N].
      + destruct b, a; reflexivity.
      + destruct b; [destruct a; reflexivity|]. rewrite H; [reflexivity | reflexivity | congruence].
    - destruct b; [destruct a; reflexivity|]. rewrite H; [reflexivity | reflexivity | discriminate].
  Qed.

  (* all events of a run, in order *)
  Definition run_events (results : list (trk_result V)) : list (sp_event * Z) :=
    flat_map (fun r => abs_calls (r_calls r)) results.

  (* a history that respects the ordered-mode caveat of insert_or_update() at every step (`op_ok`); histories without
     that operation do trivially *)
  Fixpoint trk_run_ok (st : tracker) (h : list (trk_op V)) : Prop :=
    match h with
    | [] => True
    | op :: r => op_ok st op /\ trk_run_ok (r_state (trk_step nattrs st op)) r
    end.

  Lemma run_ok_without_insert : forall (h : list (trk_op V)) (st : tracker),
    (forall now msg ts, ~ In (OpInsertOrUpdate now msg ts) h) -> trk_run_ok st h.
  Proof.
    induction h as [|op r IH]; intros st N; simpl; [exact Logic.I|]. split.
    - destruct op; try exact Logic.I. exfalso. apply (N now decoded ts_epoch_ms). now left.
    - apply IH. intros now msg ts I. apply (N now msg ts). now right.
  Qed.

  Lemma run_alive m : forall h (st : tracker) trace0, inv st -> trk_run_ok st h ->
    sp_alive m trace0 = Some (idict_mem (t_tracks st) m) ->
    sp_alive m (trace0 ++ run_events (snd (trk_run nattrs st h))) =
      Some (idict_mem (t_tracks (fst (trk_run nattrs st h))) m).
  Proof.
    induction h as [|op r IH]; intros st trace0 I OK A; simpl.
    - now rewrite app_nil_r.
    - destruct OK as [OK1 OK2].
      destruct (trk_run nattrs (r_state (trk_step nattrs st op)) r) as [st' rs] eqn:ER. simpl.
      rewrite app_assoc. specialize (IH (r_state (trk_step nattrs st op)) (trace0 ++ abs_calls (r_calls (trk_step nattrs st op)))).
      rewrite ER in IH. simpl in IH. apply IH; [now apply step_inv | assumption|].
      unfold sp_alive in *. rewrite events_of_app, auto_run_app, A.
      destruct (step_events st op m I) as (E & K). rewrite E. now apply expected_run.
  Qed.

  (* C15: the events of every MMSI stay in (CREATED UPDATED* DELETED)* and "alive" = "has a track" *)
  Theorem events_lifecycle ttl ordered h m : trk_run_ok (trk_init ttl ordered) h ->
    sp_alive m (run_events (snd (trk_run nattrs (trk_init ttl ordered) h))) =
      Some (idict_mem (t_tracks (fst (trk_run nattrs (trk_init ttl ordered) h))) m).
  Proof. intros OK. apply (run_alive m h (trk_init ttl ordered) []); [apply inv_init | assumption | reflexivity]. Qed.

  Lemma run_reachable : forall h (st : tracker), reachable st -> trk_run_ok st h -> reachable (fst (trk_run nattrs st h)).
  Proof.
    induction h as [|op r IH]; intros st R OK; simpl; [assumption|]. destruct OK as [OK1 OK2].
    specialize (IH _ (reach_step st op R OK1) OK2). destruct (trk_run nattrs (r_state (trk_step nattrs st op)) r). exact IH.
  Qed.

  (* ================================================================================= 5. C12 *)
  (* what a message carries, as the specification sees it: the attribute is present iff hasattr and not None *)
  Definition present (a : trk_mattr V) : option V := match a with MPresent (Some v) => Some v | _ => None end.

  Definition abs_op (op : trk_op V) : sp_op V :=
    match op with
    | OpUpdate now msg ts => SpUpdate now (m_mmsi msg) (map present (m_attrs msg)) ts
    | OpCleanup now => SpCleanup now
    | OpPop m => SpPop m
    | OpInsertOrUpdate now msg ts => SpInsert now (m_mmsi msg) (map present (m_attrs msg)) ts
    | OpSetTtl t => SpSetTtl t
    | OpUnordered => SpUnordered
    | _ => SpOther
    end.

  (* the abstraction: forget the insertion order, the cache, the subscribers *)
  Definition abs_track (tr : track) : sp_track V := mkSpTrack (tr_lu tr) (tr_attrs tr).
  Definition abs_get (st : tracker) (m : Z) : option (sp_track V) := option_map abs_track (idict_get (t_tracks st) m).
  Definition refines (st : tracker) (log : sp_log V) : Prop := forall m, abs_get st m = sp_track_of nattrs m log.

  Definition carried (ms : list (trk_mattr V)) (i : nat) : option V :=
    match nth_error ms i with Some (MPresent (Some v)) => Some v | _ => None end.

  Lemma set_fields_nil (cur : list (option V)) : trk_set_fields cur [] = cur.
  Proof. destruct cur; reflexivity. Qed.

  Lemma set_fields_spec n : forall ms, trk_set_fields (repeat None n) ms = map (carried ms) (seq 0 n).
  Proof.
    induction n as [|n IH]; intros ms; [reflexivity|]. simpl repeat. rewrite <- cons_seq, <- seq_shift. simpl map. rewrite map_map.
    destruct ms as [|a ar]; simpl trk_set_fields.
    - f_equal. rewrite <- (set_fields_nil (repeat None n)), IH. apply map_ext. intros i. unfold carried.
      now destruct i.
    - rewrite IH. reflexivity.
  Qed.

  Lemma merge_map {B} (f g : B -> option V) l :
    trk_merge_fields (map f l) (map g l) = map (fun i => match g i with Some v => Some v | None => f i end) l.
  Proof. induction l as [|x r IH]; simpl; [reflexivity | now rewrite IH]. Qed.

  Lemma most_recent_cons i a t msgs :
    sp_most_recent i ((map present a, t) :: msgs) =
    match carried a i with Some v => Some v | None => sp_most_recent i msgs end.
  Proof.
    simpl. unfold carried. rewrite nth_error_map. destruct (nth_error a i) as [[|[v|]]|]; reflexivity.
  Qed.

  Lemma since_rem_app m l (log : sp_log V) :
    sp_since_removal m (map SRem l ++ log) = if inset l m then [] else sp_since_removal m log.
  Proof.
    induction l as [|x r IH]; simpl; [reflexivity|]. unfold inset in *. simpl.
    destruct (m =? x); [reflexivity | apply IH].
  Qed.

  Lemma track_of_rem_app m l (log : sp_log V) :
    sp_track_of nattrs m (map SRem l ++ log) = if inset l m then None else sp_track_of nattrs m log.
  Proof. unfold sp_track_of. rewrite since_rem_app. destruct (inset l m); reflexivity. Qed.

  Lemma lu_of_track_of m (log : sp_log V) : sp_lu_of m log = option_map (@sp_lu V) (sp_track_of nattrs m log).
  Proof. unfold sp_lu_of, sp_track_of. destruct (sp_since_removal m log) as [|[a t] r]; reflexivity. Qed.

  Lemma refines_lu st log m : refines st log -> sp_lu_of m log = option_map (@tr_lu V) (idict_get (t_tracks st) m).
  Proof.
    intros R. rewrite lu_of_track_of, <- R. unfold abs_get. destruct (idict_get (t_tracks st) m); reflexivity.
  Qed.

  Lemma since_in_mmsis m (log : sp_log V) : sp_since_removal m log <> [] -> In m (sp_mmsis log).
  Proof.
    induction log as [|[m' a t|m'] r IH]; simpl; [congruence| |].
    - destruct (Z.eqb_spec m m') as [->|N]; [now left | right; auto].
    - destruct (Z.eqb_spec m m') as [->|N]; [now left | right; auto].
  Qed.

  Lemma older_iff st log m ts : refines st log -> sp_older ts m log = true <-> older_than_track st m ts.
  Proof.
    intros R. unfold sp_older, older_than_track. rewrite (refines_lu st log m R).
    destruct (idict_get (t_tracks st) m) as [tr|]; simpl.
    - rewrite Z.ltb_lt. split; [intros L; exists tr; auto | intros (o & [= <-] & L); assumption].
    - split; [discriminate | intros (o & X & _); discriminate].
  Qed.

  Lemma rejected_iff st log m ts : inv st -> refines st log ->
    sp_rejected (t_ordered st) m ts log = true <-> upd_rejected st m ts.
  Proof.
    intros I R. unfold sp_rejected, upd_rejected, out_of_order. rewrite orb_true_iff, andb_true_iff, (older_iff st log m ts R).
    rewrite existsb_exists. split; (intros [H|H]; [now left | right]).
    - destruct H as (EO & m' & _ & O). split; [assumption|]. apply (older_iff st log m' ts R) in O.
      destruct O as (tr & G & L). exists m', tr. split; [now apply get_some_in | assumption].
    - destruct H as (EO & k & tr & H & L). split; [assumption|]. exists k.
      pose proof (in_get _ _ _ (inv_nodup _ I) H) as G. split.
      + apply since_in_mmsis. pose proof (refines_lu st log k R) as E. rewrite G in E. unfold sp_lu_of in E.
        destruct (sp_since_removal k log); [discriminate | congruence].
      + apply (older_iff st log k ts R). exists tr. auto.
  Qed.

  (* what expiry removed, read off the DELETED calls, against the set the model deleted *)
  Lemma expired_vs_del (d : idict track) del (calls : list call) m :
    (forall m, calls_for m calls = if inset del m then deleted_call d m else []) ->
    inset (deleted_mmsis calls) m = inset del m && idict_mem d m.
  Proof.
    intros C. destruct (inset (deleted_mmsis calls) m) eqn:E.
    - apply inset_iff in E. unfold deleted_mmsis in E. apply in_map_iff in E. destruct E as (c & <- & Ic).
      apply filter_In in Ic. destruct (cleanup_calls _ _ _ C c (proj1 Ic)) as (_ & D & G).
      apply inset_iff in D. unfold idict_mem. now rewrite D, G.
    - destruct (inset del m) eqn:D; [|reflexivity]. unfold idict_mem. destruct (idict_get d m) as [tr|] eqn:G; [|reflexivity].
      exfalso. apply inset_false in E. apply E. unfold deleted_mmsis.
      assert (J : In (DELETED, tr) (calls_for m calls)) by (rewrite C, D; unfold deleted_call; rewrite G; now left).
      apply filter_In in J. destruct J as [J K]. apply Z.eqb_eq in K. simpl in K.
      apply in_map_iff. exists (DELETED, tr). split; [now rewrite K | apply filter_In; split; [assumption | reflexivity]].
  Qed.

  Lemma refines_after_cleanup (st2 : tracker) log1 now : inv st2 -> refines st2 log1 ->
    refines (fst (trk_cleanup st2 now)) (map SRem (deleted_mmsis (snd (trk_cleanup st2 now))) ++ log1).
  Proof.
    intros I R m. destruct (cleanup_spec st2 now I) as (del & o' & calls & Ec & _ & C & _). rewrite Ec. simpl.
    rewrite track_of_rem_app, (expired_vs_del _ _ _ m C), <- R. unfold abs_get. simpl. rewrite get_without.
    unfold idict_mem. destruct (inset del m); simpl; [|reflexivity]. destruct (idict_get (t_tracks st2) m); reflexivity.
  Qed.

  Lemma deleted_mmsis_update (st : tracker) m tr (calls : list call) :
    deleted_mmsis ((upd_event st m, tr) :: calls) = deleted_mmsis calls.
  Proof. unfold deleted_mmsis. simpl. now rewrite upd_event_not_deleted. Qed.

  Lemma refines_after_insert (st : tracker) log now (msg : trk_msg V) ts : inv st -> refines st log ->
    refines (after_insert st (m_mmsi msg) (trk_msg_to_track nattrs msg ts now))
            (SUpd (m_mmsi msg) (map present (m_attrs msg)) (msg_ts ts now) :: log).
  Proof.
    intros I R m. set (m0 := m_mmsi msg). set (new := trk_msg_to_track nattrs msg ts now).
    destruct (after_insert_cfg st m0 new) as (_ & _ & _ & Etr). unfold abs_get. rewrite Etr.
    rewrite get_app_single, get_without, (Z.eqb_sym m0 m). unfold sp_track_of. simpl sp_since_removal.
    destruct (Z.eqb_spec m m0) as [->|N].
    - (* the updated MMSI: the merged attributes are the most recent present values *)
      cbn [option_map]. f_equal. unfold abs_track.
      assert (Elu : tr_lu (upd_result st m0 new) = msg_ts ts now).
      { destruct (upd_result_facts st m0 new I) as (_ & -> & _); apply msg_to_track_facts. }
      rewrite Elu. f_equal.
      assert (Enew : tr_attrs new = map (carried (m_attrs msg)) (seq 0 nattrs)).
      { unfold new, trk_msg_to_track. destruct ts; simpl; apply set_fields_spec. }
      specialize (R m0). unfold abs_get, sp_track_of, upd_result, abs_track in *.
      destruct (idict_get (t_tracks st) m0) as [old|]; cbn [option_map] in R.
      + destruct (sp_since_removal m0 log) as [|[a0 t0] r0] eqn:ES; [discriminate|]. injection R as Rlu Rattrs.
        unfold trk_update_track. cbn [tr_attrs]. rewrite Rattrs, Enew, merge_map. apply map_ext. intros i.
        now rewrite most_recent_cons.
      + destruct (sp_since_removal m0 log) as [|[a0 t0] r0] eqn:ES; [|discriminate].
        rewrite Enew. apply map_ext. intros i. rewrite most_recent_cons. cbn [sp_most_recent].
        now destruct (carried (m_attrs msg) i).
    - specialize (R m). unfold abs_get, sp_track_of in R. rewrite <- R.
      destruct (idict_get (t_tracks st) m); reflexivity.
  Qed.

  (* C12, one operation: the abstraction of the new state is what the log specification prescribes, where the
     specification is told which MMSIs expiry removed (the DELETED events of the step) *)
  Theorem step_refines (st : tracker) log op : inv st -> refines st log ->
    let res := trk_step nattrs st op in
    refines (r_state res) (sp_step (t_ordered st) log (abs_op op) (deleted_mmsis (r_calls res))).
  Proof.
    intros I R res. subst res. destruct op as [now msg ts|now|m1|ev cb|ev cb|now msg ts|newttl|]; simpl.
    - fold (msg_ts ts now).
      assert (Elu : tr_lu (trk_msg_to_track nattrs msg ts now) = msg_ts ts now) by apply msg_to_track_facts.
      pose proof (rejected_iff st log (m_mmsi msg) (msg_ts ts now) I R) as RJ.
      destruct (update_spec st now msg ts I) as [[Rej E]|(NRej & I2 & E)]; rewrite E; simpl; rewrite Elu in *.
      + apply RJ in Rej. now rewrite Rej.
      + destruct (sp_rejected (t_ordered st) (m_mmsi msg) (msg_ts ts now) log) eqn:ER; [exfalso; apply NRej; now apply RJ|].
        rewrite deleted_mmsis_update. apply refines_after_cleanup; [assumption|]. now apply refines_after_insert.
    - pose proof (refines_after_cleanup st log now I R) as H. destruct (trk_cleanup st now) as [st1 c]. exact H.
    - rewrite pop_track_spec by apply I. intros m. unfold sp_track_of. simpl sp_since_removal.
      specialize (R m). unfold sp_track_of in R.
      destruct (idict_get (t_tracks st) m1) as [tr|] eqn:G; simpl; unfold abs_get in *; simpl.
      + rewrite get_without, (Z.eqb_sym m1 m). destruct (m =? m1); [reflexivity | exact R].
      + destruct (Z.eqb_spec m m1) as [->|N]; [now rewrite G | exact R].
    - exact R.
    - exact R.
    - fold (msg_ts ts now).
      assert (Elu : tr_lu (trk_msg_to_track nattrs msg ts now) = msg_ts ts now) by apply msg_to_track_facts.
      pose proof (older_iff st log (m_mmsi msg) (msg_ts ts now) R) as OI.
      destruct (insert_or_update_spec st (m_mmsi msg) (trk_msg_to_track nattrs msg ts now) I) as [[Rej E]|[NRej E]];
        rewrite E; simpl; rewrite Elu in *.
      + apply OI in Rej. now rewrite Rej.
      + destruct (sp_older (msg_ts ts now) (m_mmsi msg) log) eqn:ER; [exfalso; apply NRej; now apply OI|].
        now apply refines_after_insert.
    - exact R.
    - exact R.
  Qed.

  (* only the two configuration operations change the configuration *)
  Lemma step_cfg (st : tracker) op : inv st ->
    t_ordered (r_state (trk_step nattrs st op)) = sp_mode (t_ordered st) (abs_op op) /\
    t_ttl (r_state (trk_step nattrs st op)) = sp_ttl_after (t_ttl st) (abs_op op).
  Proof.
    intros I. destruct op as [now msg ts|now|m1|ev cb|ev cb|now msg ts|newttl|]; simpl; auto.
    - destruct (update_spec st now msg ts I) as [[_ E]|(_ & I2 & E)]; rewrite E; simpl; [auto|].
      destruct (cleanup_spec _ now I2) as (del & o' & calls & Ec & _). rewrite Ec. simpl.
      destruct (after_insert_cfg st (m_mmsi msg) (trk_msg_to_track nattrs msg ts now)) as (-> & -> & _). auto.
    - destruct (cleanup_spec _ now I) as (del & o' & calls & Ec & _). rewrite Ec. simpl. auto.
    - rewrite pop_track_spec by apply I. destruct (idict_get (t_tracks st) m1); simpl; auto.
    - destruct (insert_or_update_spec st (m_mmsi msg) (trk_msg_to_track nattrs msg ts now) I) as [[_ E]|[_ E]]; rewrite E; simpl; [auto|].
      destruct (after_insert_cfg st (m_mmsi msg) (trk_msg_to_track nattrs msg ts now)) as (-> & -> & _). auto.
  Qed.

  (* the history as the specification sees it: every operation with the MMSIs its DELETED events name *)
  Definition spec_history (h : list (trk_op V)) (rs : list (trk_result V)) : list (sp_op V * list Z) :=
    combine (map abs_op h) (map (fun r => deleted_mmsis (r_calls r)) rs).

  Lemma run_refines : forall h (st : tracker) log, inv st -> trk_run_ok st h -> refines st log ->
    refines (fst (trk_run nattrs st h))
            (sp_run (t_ordered st) log (spec_history h (snd (trk_run nattrs st h)))).
  Proof.
    induction h as [|op r IH]; intros st log I OK R; simpl; [exact R|]. destruct OK as [OK1 OK2].
    destruct (trk_run nattrs (r_state (trk_step nattrs st op)) r) as [st' rs] eqn:ER. simpl.
    specialize (IH (r_state (trk_step nattrs st op)) (sp_step (t_ordered st) log (abs_op op) (deleted_mmsis (r_calls (trk_step nattrs st op))))).
    rewrite ER in IH. simpl in IH. rewrite (proj1 (step_cfg st op I)) in IH.
    apply IH; [now apply step_inv | assumption | now apply step_refines].
  Qed.

  (* C12: for every history the tracker, as a finite map, is the map the log of accepted updates defines *)
  Theorem refinement ttl ordered h : trk_run_ok (trk_init ttl ordered) h ->
    refines (fst (trk_run nattrs (trk_init ttl ordered) h))
            (sp_run ordered [] (spec_history h (snd (trk_run nattrs (trk_init ttl ordered) h)))).
  Proof. intros OK. apply (run_refines h (trk_init ttl ordered) []); [apply inv_init | assumption | intros m; reflexivity]. Qed.

  (* ... and a rejected update (exactly the updates the specification calls rejected) changes nothing at all *)
  Theorem rejected_unchanged (st : tracker) now (msg : trk_msg V) ts : reachable st ->
    let res := trk_step nattrs st (OpUpdate now msg ts) in
    (r_exn res <> None <-> upd_rejected st (m_mmsi msg) (msg_ts ts now)) /\
    (r_exn res <> None -> r_state res = st /\ r_calls res = [] /\ r_exn res = Some (Py ValueError)).
  Proof.
    intros R res. subst res. apply reachable_inv in R. simpl.
    assert (Elu : tr_lu (trk_msg_to_track nattrs msg ts now) = msg_ts ts now) by apply msg_to_track_facts.
    destruct (update_spec st now msg ts R) as [[Rej E]|(NRej & I2 & E)]; rewrite E; simpl; rewrite Elu in *.
    - split; [split; [auto | discriminate] | auto].
    - split; [split; [congruence | tauto] | congruence].
  Qed.

  (* "exactly one track per MMSI": the MMSIs of the tracks are pairwise different and get_track finds each *)
  Theorem one_track_per_mmsi (st : tracker) : reachable st ->
    NoDup (map (@tr_mmsi V) (trk_tracks st)) /\
    (forall tr, In tr (trk_tracks st) -> trk_get_track st (tr_mmsi tr) = Some tr) /\
    (forall m tr, trk_get_track st m = Some tr -> In tr (trk_tracks st) /\ tr_mmsi tr = m /\ length (tr_attrs tr) = nattrs).
  Proof.
    intros R. apply reachable_inv in R. unfold trk_tracks, trk_get_track. split; [|split].
    - rewrite values_mmsi_keys by assumption. apply R.
    - intros tr H. apply in_values in H. destruct H as (k & H). rewrite (inv_key _ R _ _ H). now apply in_get; [apply R|].
    - intros m tr G. apply get_some_in in G. split; [apply in_values; now exists m|]. split; [now apply (inv_key _ R) | now apply (inv_len _ R m)].
  Qed.
End Tracker.

(* ================================================================================= the specification itself *)
(* sanity of Spec/TrackerSpec.v: the boolean forms used as oracles are the propositions, and the "most recent
   present value" really is one that was reported *)
Section SpecFacts.
  Context {V : Type}.

  Lemma most_recent_reported i (msgs : list (list (option V) * Z)) v :
    sp_most_recent i msgs = Some v ->
    exists pre a t post, msgs = pre ++ (a, t) :: post /\ nth_error a i = Some (Some v) /\
      forall a' t', In (a', t') pre -> forall v', nth_error a' i <> Some (Some v').
  Proof.
    induction msgs as [|[a t] r IH]; simpl; [discriminate|].
    destruct (nth_error a i) as [[v0|]|] eqn:E.
    - intros [= <-]. exists [], a, t, r. repeat split; [assumption | intros ? ? []].
    - intros H. destruct (IH H) as (pre & a1 & t1 & post & -> & N & P). exists ((a, t) :: pre), a1, t1, post.
      repeat split; [assumption|]. intros a' t' [[= <- <-]|J] v'; [congruence | now apply (P a' t')].
    - intros H. destruct (IH H) as (pre & a1 & t1 & post & -> & N & P). exists ((a, t) :: pre), a1, t1, post.
      repeat split; [assumption|]. intros a' t' [[= <- <-]|J] v'; [congruence | now apply (P a' t')].
  Qed.

  Lemma never_reported_none i (msgs : list (list (option V) * Z)) :
    (forall a t, In (a, t) msgs -> forall v, nth_error a i <> Some (Some v)) -> sp_most_recent i msgs = None.
  Proof.
    induction msgs as [|[a t] r IH]; simpl; [reflexivity|]. intros H.
    destruct (nth_error a i) as [[v0|]|] eqn:E.
    - exfalso. apply (H a t (or_introl eq_refl) v0 E).
    - apply IH. intros a' t' J. apply (H a' t'). now right.
    - apply IH. intros a' t' J. apply (H a' t'). now right.
  Qed.
End SpecFacts.

Lemma ttl_okb_iff T now a b : sp_ttl_okb T now a b = true <-> sp_ttl_ok T now a b.
Proof.
  unfold sp_ttl_okb, sp_ttl_ok. rewrite andb_true_iff, !forallb_forall, !Forall_forall.
  split; intros [A B]; split; intros x I; [apply Z.ltb_lt | apply Z.leb_le | apply Z.ltb_lt | apply Z.leb_le]; auto.
Qed.

Lemma zmemb_iff x l : zmemb x l = true <-> In x l.
Proof.
  unfold zmemb. rewrite existsb_exists. split.
  - intros (y & I & E). apply Z.eqb_eq in E. now subst.
  - intros I. exists x. split; [assumption | apply Z.eqb_refl].
Qed.

Lemma nodupb_iff l : nodupb l = true <-> NoDup l.
Proof.
  induction l as [|x r IH]; simpl; [split; [constructor | reflexivity]|].
  rewrite andb_true_iff, negb_true_iff, IH. split.
  - intros [N D]. constructor; [|assumption]. intros I. apply zmemb_iff in I. congruence.
  - intros H. inversion H as [|? ? N D]; subst. split; [|assumption].
    destruct (zmemb x r) eqn:E; [|reflexivity]. apply zmemb_iff in E. contradiction.
Qed.

Lemma pair_memb_iff x l : pair_memb x l = true <-> In x l.
Proof.
  unfold pair_memb. rewrite existsb_exists. split.
  - intros ([a b] & I & E). apply andb_true_iff in E. destruct E as [E1 E2]. apply Z.eqb_eq in E1, E2.
    destruct x as [c d]. simpl in *. now subst.
  - intros I. exists x. split; [assumption|]. now rewrite !Z.eqb_refl.
Qed.

Lemma top_nb_iff n all r : sp_top_nb n all r = true <-> sp_top_n n all r.
Proof.
  unfold sp_top_nb, sp_top_n. rewrite !andb_true_iff, Z.eqb_eq, nodupb_iff, !forallb_forall. split.
  - intros (((A & B) & C) & D). repeat split; [assumption | assumption | |].
    + intros x I. apply pair_memb_iff. now apply C.
    + intros x y Ix Iy N. specialize (D x Ix). rewrite forallb_forall in D. specialize (D y Iy).
      apply orb_true_iff in D. destruct D as [D|D]; [apply zmemb_iff in D; contradiction | now apply Z.leb_le].
  - intros (A & B & C & D). repeat split; [assumption | assumption | |].
    + intros x I. apply pair_memb_iff. now apply C.
    + intros x Ix. apply forallb_forall. intros y Iy. apply orb_true_iff.
      destruct (zmemb (fst y) (map fst r)) eqn:E; [now left | right]. apply Z.leb_le. apply (D x y Ix Iy).
      intros J. apply zmemb_iff in J. congruence.
Qed.

Lemma newest_firstb_iff r : sp_newest_firstb r = true <-> sp_newest_first r.
Proof.
  unfold sp_newest_first. induction r as [|a t IH]; simpl; [split; [constructor | reflexivity]|].
  rewrite andb_true_iff, forallb_forall, IH. split.
  - intros [F S]. constructor; [assumption|]. apply Forall_forall. intros b I. apply Z.leb_le. now apply F.
  - intros H. inversion H as [|? ? S F]; subst. split; [|assumption]. intros b I. apply Z.leb_le.
    rewrite Forall_forall in F. now apply F.
Qed.

(* ================================================================================= C12 + C13 in one statement *)
(* With expiry computed by the specification itself (exactly the tracks whose age has reached the TTL), the
   tracker refines a specification that does not look at the implementation at all. *)
Section Exact.
  Context {V : Type}.
  Variable nattrs : nat.
  Notation tracker := (trk_tracker V).

  Lemma spec_expired_iff (st2 : tracker) (log1 : sp_log V) now m tr :
    refines nattrs st2 log1 -> idict_get (t_tracks st2) m = Some tr ->
    inset (sp_expired (t_ttl st2) now log1) m = true <->
    exists T, t_ttl st2 = Some T /\ T <= now - tr_lu tr.
  Proof.
    intros R G. pose proof (refines_lu nattrs st2 log1 m R) as L. rewrite G in L. simpl in L.
    rewrite inset_iff. unfold sp_expired. destruct (t_ttl st2) as [T|].
    - rewrite filter_In, L, Z.leb_le. split.
      + intros [_ H]. now exists T.
      + intros (T' & [= <-] & H). split; [|assumption]. apply since_in_mmsis. unfold sp_lu_of in L.
        destruct (sp_since_removal m log1); [discriminate | congruence].
    - split; [intros [] | intros (T & X & _); discriminate].
  Qed.

  Lemma refines_after_cleanup_exact (st2 : tracker) log1 now : inv nattrs st2 -> refines nattrs st2 log1 ->
    refines nattrs (fst (trk_cleanup st2 now)) (map SRem (sp_expired (t_ttl st2) now log1) ++ log1).
  Proof.
    intros I R m. destruct (cleanup_spec nattrs st2 now I) as (del & o' & calls & Ec & _ & _ & X). rewrite Ec. simpl.
    rewrite track_of_rem_app, <- R. unfold abs_get. simpl. rewrite get_without.
    destruct (idict_get (t_tracks st2) m) as [tr|] eqn:G; simpl.
    2:{ destruct (inset del m), (inset (sp_expired (t_ttl st2) now log1) m); reflexivity. }
    pose proof (spec_expired_iff st2 log1 now m tr R G) as SE. apply get_some_in in G.
    destruct (inset del m) eqn:D; destruct (inset (sp_expired (t_ttl st2) now log1) m) eqn:E; try reflexivity; exfalso.
    - apply inset_iff in D. destruct (t_ttl st2) as [T|]; [|subst del; destruct D].
      apply (X _ _ G) in D. assert (H : false = true) by (apply SE; now exists T). discriminate.
    - destruct (proj1 SE eq_refl) as (T & ET & St). rewrite ET in X. apply (X _ _ G) in St.
      apply inset_false in D. contradiction.
  Qed.

  Theorem step_refines_exact (st : tracker) log op : inv nattrs st -> refines nattrs st log ->
    refines nattrs (r_state (trk_step nattrs st op)) (sp_step_exact (t_ttl st) (t_ordered st) log (abs_op op)).
  Proof.
    intros I R. destruct op as [now msg ts|now|m1|ev cb|ev cb|now msg ts|newttl|].
    - simpl. fold (msg_ts ts now).
      assert (Elu : tr_lu (trk_msg_to_track nattrs msg ts now) = msg_ts ts now) by apply msg_to_track_facts.
      pose proof (rejected_iff nattrs st log (m_mmsi msg) (msg_ts ts now) I R) as RJ.
      destruct (update_spec nattrs st now msg ts I) as [[Rej E]|(NRej & I2 & E)]; rewrite E; simpl; rewrite Elu in *.
      + apply RJ in Rej. now rewrite Rej.
      + destruct (sp_rejected (t_ordered st) (m_mmsi msg) (msg_ts ts now) log) eqn:ER; [exfalso; apply NRej; now apply RJ|].
        destruct (after_insert_cfg st (m_mmsi msg) (trk_msg_to_track nattrs msg ts now)) as (Ettl & _).
        rewrite <- Ettl. apply refines_after_cleanup_exact; [assumption|]. now apply refines_after_insert.
    - simpl. pose proof (refines_after_cleanup_exact st log now I R) as H.
      destruct (trk_cleanup st now) as [st1 c]. exact H.
    - apply (step_refines nattrs st log (OpPop m1) I R).
    - exact R.
    - exact R.
    - apply (step_refines nattrs st log (OpInsertOrUpdate now msg ts) I R).
    - exact R.
    - exact R.
  Qed.

  Lemma run_refines_exact : forall h (st : tracker) log, inv nattrs st -> trk_run_ok nattrs st h -> refines nattrs st log ->
    refines nattrs (fst (trk_run nattrs st h))
            (sp_run_exact_from (t_ttl st) (t_ordered st) log (map abs_op h)).
  Proof.
    induction h as [|op r IH]; intros st log I OK R; simpl; [exact R|]. destruct OK as [OK1 OK2].
    destruct (trk_run nattrs (r_state (trk_step nattrs st op)) r) as [st' rs] eqn:ER. simpl.
    specialize (IH (r_state (trk_step nattrs st op)) (sp_step_exact (t_ttl st) (t_ordered st) log (abs_op op))).
    rewrite ER in IH. simpl in IH. destruct (step_cfg nattrs st op I) as (Eo & Et). rewrite Eo, Et in IH.
    apply IH; [now apply step_inv | assumption | now apply step_refines_exact].
  Qed.

  Theorem refinement_exact ttl ordered (h : list (trk_op V)) : trk_run_ok nattrs (trk_init ttl ordered) h ->
    refines nattrs (fst (trk_run nattrs (trk_init ttl ordered) h)) (sp_run_exact ttl ordered (map abs_op h)).
  Proof. intros OK. apply (run_refines_exact h (trk_init ttl ordered) []); [apply inv_init | assumption | intros m; reflexivity]. Qed.
End Exact.

(* ================================================================================= statements over reachable states *)
Section Reachable.
  Context {V : Type}.
  Variable nattrs : nat.

  Lemma step_cfg_reachable (st : trk_tracker V) op : reachable nattrs st ->
    t_ordered (r_state (trk_step nattrs st op)) = sp_mode (t_ordered st) (abs_op op) /\
    t_ttl (r_state (trk_step nattrs st op)) = sp_ttl_after (t_ttl st) (abs_op op).
  Proof. intros R. apply step_cfg. now apply reachable_inv. Qed.

  Lemma step_events_reachable (st : trk_tracker V) op m : reachable nattrs st ->
    let res := trk_step nattrs st op in
    sp_events_of m (abs_calls (r_calls res)) =
      sp_expected_events (step_target op res) m (idict_mem (t_tracks st) m) (idict_mem (t_tracks (r_state res)) m) /\
    (idict_mem (t_tracks st) m = false -> step_target op res <> Some m ->
     idict_mem (t_tracks (r_state res)) m = false).
  Proof. intros R. apply step_events. now apply reachable_inv. Qed.

  Lemma rejected_emits_nothing (st : trk_tracker V) now (msg : trk_msg V) ts : reachable nattrs st ->
    let res := trk_step nattrs st (OpUpdate now msg ts) in
    r_exn res <> None -> r_calls res = [] /\ r_state res = st.
  Proof. intros R res H. destruct (proj2 (rejected_unchanged nattrs st now msg ts R) H) as (A & B & _). auto. Qed.
End Reachable.
