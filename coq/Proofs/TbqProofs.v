(* Proofs about Model/Tbq.v (TagBlockQueue.put_sentence):
   - tbq_put_raises_only_lib : put_sentence raises nothing but a library exception (C05, tag block queue part);
   - group_independence      : a step touches only the entry of its own group id;
   - single_group_correct    : the per-arrival invariant tying `groups` to the arrival history;
   - tbq_run_spec            : for every well-formed arrival sequence the queue delivers what Spec/TbqSpec.v demands (C17). *)
From Coq Require Import ZArith List Bool Lia.
Require Import Prim.Exn Prim.PyText Model.Sentence Model.TagBlock Model.Tbq Spec.TbqSpec Proofs.TagBlockProofs.
Import ListNotations.
Open Scope Z_scope.

(* ---------------------------------------------------------------- the association list *)
Lemma tbq_get_set_same : forall st k v, tbq_get (tbq_set st k v) k = Some v.
Proof.
  induction st as [|[k0 v0] r IH]; intros k v; simpl.
  - now rewrite Z.eqb_refl.
  - destruct (k0 =? k) eqn:E; simpl; rewrite E; auto.
Qed.

Lemma tbq_get_set_other : forall st k v k', k' <> k -> tbq_get (tbq_set st k v) k' = tbq_get st k'.
Proof.
  induction st as [|[k0 v0] r IH]; intros k v k' H; simpl.
  - destruct (k =? k') eqn:E; auto. apply Z.eqb_eq in E. congruence.
  - destruct (k0 =? k) eqn:E; simpl.
    + apply Z.eqb_eq in E. subst. destruct (k =? k') eqn:E'; auto. apply Z.eqb_eq in E'. congruence.
    + destruct (k0 =? k'); auto.
Qed.

Lemma tbq_get_del_other : forall st k k', k' <> k -> tbq_get (tbq_del st k) k' = tbq_get st k'.
Proof.
  induction st as [|[k0 v0] r IH]; intros k k' H; simpl; auto.
  destruct (k0 =? k) eqn:E; simpl.
  - apply Z.eqb_eq in E. subst. destruct (k =? k') eqn:E'; auto. apply Z.eqb_eq in E'. congruence.
  - destruct (k0 =? k'); auto.
Qed.

Lemma tbq_get_none_notin : forall st k, ~ In k (map fst st) -> tbq_get st k = None.
Proof.
  induction st as [|[k0 v0] r IH]; intros k H; simpl in *; auto.
  destruct (k0 =? k) eqn:E.
  - apply Z.eqb_eq in E. exfalso. auto.
  - apply IH. auto.
Qed.

Lemma tbq_get_del_same : forall st k, NoDup (map fst st) -> tbq_get (tbq_del st k) k = None.
Proof.
  induction st as [|[k0 v0] r IH]; intros k H; simpl in *; auto.
  inversion H; subst.
  destruct (k0 =? k) eqn:E; simpl.
  - apply Z.eqb_eq in E. subst. now apply tbq_get_none_notin.
  - rewrite E. auto.
Qed.

Lemma tbq_set_keys : forall st k v x, In x (map fst (tbq_set st k v)) -> x = k \/ In x (map fst st).
Proof.
  induction st as [|[k0 v0] r IH]; intros k v x H; simpl in *.
  - destruct H; auto.
  - destruct (k0 =? k) eqn:E; simpl in *.
    + destruct H; auto.
    + destruct H; auto. apply IH in H. destruct H; auto.
Qed.

Lemma tbq_set_nodup : forall st k v, NoDup (map fst st) -> NoDup (map fst (tbq_set st k v)).
Proof.
  induction st as [|[k0 v0] r IH]; intros k v H; simpl in *.
  - repeat constructor. auto.
  - inversion H; subst. destruct (k0 =? k) eqn:E; simpl.
    + constructor; auto.
    + constructor; auto. intro HI. apply tbq_set_keys in HI. destruct HI; auto.
      apply Z.eqb_neq in E. congruence.
Qed.

Lemma tbq_del_keys : forall st k x, In x (map fst (tbq_del st k)) -> In x (map fst st).
Proof.
  induction st as [|[k0 v0] r IH]; intros k x H; simpl in *; auto.
  destruct (k0 =? k); simpl in *; auto. destruct H; auto. right. eapply IH; eauto.
Qed.

Lemma tbq_del_nodup : forall st k, NoDup (map fst st) -> NoDup (map fst (tbq_del st k)).
Proof.
  induction st as [|[k0 v0] r IH]; intros k H; simpl in *; auto.
  inversion H; subst. destruct (k0 =? k); simpl; auto.
  constructor; auto. intro HI. apply tbq_del_keys in HI. auto.
Qed.

Section WithOracle.
  Variable uni : Z -> list Z -> option Z.

  (* ---------------------------------------------------------------- C05: only library exceptions *)
  Lemma tbq_put_raises_only_lib : forall st s,
    match tbq_put uni st s with Raise (Py _) => False | _ => True end.
  Proof.
    intros st s. unfold tbq_put.
    destruct (c_tag_block (sentence_common s)) as [raw|]; [|exact I].
    destruct (tb_init uni raw) as [t|e] eqn:E; simpl.
    - destruct (tb_group t) as [[[n tot] gid]|]; [|exact I].
      destruct (tot =? 1); [exact I|]. destruct (n =? 1); [exact I|].
      destruct (tbq_get st gid) as [[tot0 l]|]; [|exact I].
      destruct (negb _); exact I.
    - apply tb_init_raises_only_lib in E. subst. exact I.
  Qed.

  (* the exception is always InvalidNMEAMessageException, which both reader loops catch, and `groups` is untouched *)
  Lemma tbq_put_raise_is_invalid_nmea : forall st s e,
    tbq_put uni st s = Raise e -> e = Lib InvalidNMEAMessageException.
  Proof.
    intros st s e. unfold tbq_put.
    destruct (c_tag_block (sentence_common s)) as [raw|]; [|discriminate].
    destruct (tb_init uni raw) as [t|e'] eqn:E; simpl.
    - destruct (tb_group t) as [[[n tot] gid]|]; [|discriminate].
      destruct (tot =? 1); [discriminate|]. destruct (n =? 1); [discriminate|].
      destruct (tbq_get st gid) as [[tot0 l]|]; [|discriminate].
      destruct (negb _); discriminate.
    - intro H. inversion H; subst. now apply tb_init_raises_only_lib in E.
  Qed.

  (* exactly the classes both reader loops catch (stream.py and queue.py: InvalidNMEAMessageException,
     NonPrintableCharacterException, UnknownMessageException): nothing else ever leaves put_sentence *)
  Lemma tbq_put_raises_only_reader_set : forall st s e,
    tbq_put uni st s = Raise e ->
    e = Lib InvalidNMEAMessageException \/ e = Lib NonPrintableCharacterException \/ e = Lib UnknownMessageException.
  Proof. intros st s e H. left. eapply tbq_put_raise_is_invalid_nmea; eauto. Qed.

  (* put_sentence can only raise from tb.init(), its first action on a sentence with a tag block: `groups` has not
     been touched at that point (and the model returns no new state with a Raise) *)
  Lemma tbq_put_raise_only_from_init : forall st s e,
    tbq_put uni st s = Raise e ->
    exists raw, c_tag_block (sentence_common s) = Some raw /\ tb_init uni raw = Raise e.
  Proof.
    intros st s e. unfold tbq_put.
    destruct (c_tag_block (sentence_common s)) as [raw|]; [|discriminate].
    destruct (tb_init uni raw) as [t|e'] eqn:E; simpl.
    - destruct (tb_group t) as [[[n tot] gid]|]; [|discriminate].
      destruct (tot =? 1); [discriminate|]. destruct (n =? 1); [discriminate|].
      destruct (tbq_get st gid) as [[tot0 l]|]; [|discriminate].
      destruct (negb _); discriminate.
    - intro H. inversion H; subst. eauto.
  Qed.

  (* the caller's view: a raising put_sentence leaves the queue as it was and delivers nothing *)
  Lemma tbq_step_raise_keeps_state : forall st s e, tbq_put uni st s = Raise e -> tbq_step uni st s = (st, []).
  Proof. intros st s e H. unfold tbq_step. now rewrite H. Qed.

  (* clause 1 of C17, in every state: no group, or a group of one -> delivered at once, `groups` untouched *)
  Lemma tbq_put_passthrough : forall st s g,
    tbq_sentence_group uni s = Ok g ->
    match g with None => True | Some (_, t, _) => t = 1 end ->
    tbq_put uni st s = Ok (st, [[s]]).
  Proof.
    intros st s g Hg Hp. unfold tbq_sentence_group, tbq_put in *.
    destruct (c_tag_block (sentence_common s)) as [raw|]; [|reflexivity].
    destruct (tb_init uni raw) as [t|e]; simpl in *; [|discriminate].
    inversion Hg; subst g. destruct (tb_group t) as [[[n tot] gid]|]; [|reflexivity].
    subst tot. reflexivity.
  Qed.

  (* ---------------------------------------------------------------- the step in terms of the group triple *)
  Definition grp_of (s : sentence) : option (Z * Z * Z) :=
    match tbq_sentence_group uni s with Ok g => g | Raise _ => None end.

  (* the tag block of s is absent or parses *)
  Definition tb_parses (s : sentence) : bool := is_ok (tbq_sentence_group uni s).

  Definition astep (st : tbq_state) (s : sentence) : tbq_state * list (list sentence) :=
    match grp_of s with
    | None => (st, [[s]])
    | Some (n, t, gid) =>
        if t =? 1 then (st, [[s]])
        else if n =? 1 then (tbq_set st gid (t, [s]), [])
        else match tbq_get st gid with
             | None => (st, [])
             | Some (tot0, l) =>
                 if negb (t =? Z.of_nat (length (l ++ [s]))) then (tbq_set st gid (tot0, l ++ [s]), [])
                 else (tbq_del (tbq_set st gid (tot0, l ++ [s])) gid, [l ++ [s]])
             end
    end.

  Lemma tbq_step_astep : forall st s, tb_parses s = true -> tbq_step uni st s = astep st s.
  Proof.
    intros st s H. unfold tb_parses, tbq_step, tbq_put, astep, grp_of, tbq_sentence_group in *.
    destruct (c_tag_block (sentence_common s)) as [raw|]; [|reflexivity].
    destruct (tb_init uni raw) as [t|e]; simpl in *; [|discriminate].
    destruct (tb_group t) as [[[n tot] gid]|]; [|reflexivity].
    destruct (tot =? 1); [reflexivity|]. destruct (n =? 1); [reflexivity|].
    destruct (tbq_get st gid) as [[tot0 l]|]; [|reflexivity].
    destruct (negb _); reflexivity.
  Qed.

  (* group_independence: whatever arrives, the entry of every other group id is left alone *)
  Lemma group_independence : forall st s g,
    (match grp_of s with Some (_, _, gid) => gid <> g | None => True end) ->
    tbq_get (fst (astep st s)) g = tbq_get st g.
  Proof.
    intros st s g H. unfold astep. destruct (grp_of s) as [[[n t] gid]|]; [|reflexivity].
    destruct (t =? 1); [reflexivity|].
    destruct (n =? 1); simpl.
    - apply tbq_get_set_other. congruence.
    - destruct (tbq_get st gid) as [[tot0 l]|]; [|reflexivity].
      destruct (negb _); simpl.
      + apply tbq_get_set_other. congruence.
      + rewrite tbq_get_del_other by congruence. apply tbq_get_set_other. congruence.
  Qed.

  (* ---------------------------------------------------------------- history invariant *)
  Notation instance := (tbqs_instance grp_of).
  Notation complete := (tbqs_complete grp_of).
  Notation member := (tbqs_member grp_of).

  (* `groups` holds, for every group id, exactly the sentences of its current instance (in arrival order) as long as
     that instance is incomplete, and nothing otherwise *)
  Definition inv (rp : list sentence) (st : tbq_state) : Prop :=
    NoDup (map fst st) /\
    forall g, option_map snd (tbq_get st g) =
              match instance g rp with
              | Some i => if complete i then None else Some (rev i)
              | None => None
              end.

  Lemma inv_init : inv [] [].
  Proof. split; [constructor|]. intro g. reflexivity. Qed.

  Lemma instance_skip : forall g s rp, member g s = false -> instance g (s :: rp) = instance g rp.
  Proof. intros g s rp H. simpl. now rewrite H. Qed.

  Lemma instance_nonempty : forall g rp i, instance g rp = Some i -> i <> [].
  Proof.
    intros g rp. induction rp as [|s r IH]; intros i H; simpl in H; [discriminate|].
    destruct (member g s).
    - destruct (tbqs_num grp_of s =? 1).
      + inversion H. discriminate.
      + destruct (instance g r); inversion H. discriminate.
    - eauto.
  Qed.

  Lemma member_other : forall s n t gid g, grp_of s = Some (n, t, gid) -> g <> gid -> member g s = false.
  Proof.
    intros s n t gid g H Hn. unfold tbqs_member. rewrite H.
    destruct (gid =? g) eqn:E; [apply Z.eqb_eq in E; congruence|]. apply andb_false_r.
  Qed.

  Lemma member_self : forall s n t gid, grp_of s = Some (n, t, gid) -> (t =? 1) = false -> member gid s = true.
  Proof. intros s n t gid H Ht. unfold tbqs_member. rewrite H, Ht, Z.eqb_refl. reflexivity. Qed.

  (* single_group_correct: one arrival that meets the provisos keeps the invariant and delivers what the
     specification demands *)
  Lemma single_group_correct : forall rp st s,
    inv rp st -> tbqs_arrival_ok grp_of rp s = true ->
    snd (astep st s) = tbqs_step grp_of rp s /\ inv (s :: rp) (fst (astep st s)).
  Proof.
    intros rp st s [Hnd Hinv] Hok.
    unfold astep, tbqs_step, tbqs_arrival_ok in *.
    destruct (grp_of s) as [[[n t] gid]|] eqn:Hg.
    2:{ split; [reflexivity|]. split; [exact Hnd|]. intro g. simpl fst.
        rewrite instance_skip; [apply Hinv|]. unfold tbqs_member. now rewrite Hg. }
    destruct (t =? 1) eqn:Ht.
    { split; [reflexivity|]. split; [exact Hnd|]. intro g. simpl fst.
      rewrite instance_skip; [apply Hinv|]. unfold tbqs_member. now rewrite Hg, Ht. }
    assert (Hmem : member gid s = true) by (eapply member_self; eauto).
    assert (Hnum : tbqs_num grp_of s = n) by (unfold tbqs_num; now rewrite Hg).
    assert (Htot : tbqs_tot grp_of s = t) by (unfold tbqs_tot; now rewrite Hg).
    destruct (n =? 1) eqn:Hn.
    - (* the first sentence of a group *)
      simpl tbqs_instance. rewrite Hmem, Hnum, Hn. simpl length.
      change (Z.of_nat 1) with 1. rewrite (Z.eqb_sym 1 t), Ht.
      split; [reflexivity|]. simpl fst. split; [now apply tbq_set_nodup|].
      intro g. destruct (Z.eq_dec g gid) as [->|Hne].
      + rewrite tbq_get_set_same. simpl tbqs_instance. rewrite Hmem, Hnum, Hn.
        unfold tbqs_complete. simpl length. rewrite Htot. change (Z.of_nat 1) with 1.
        rewrite (Z.eqb_sym 1 t), Ht. reflexivity.
      + rewrite tbq_get_set_other by exact Hne.
        rewrite instance_skip by (eapply member_other; eauto). apply Hinv.
    - (* a further sentence: by the provisos its group is in progress *)
      destruct (instance gid rp) as [i|] eqn:Hi; [|discriminate].
      apply andb_true_iff in Hok. destruct Hok as [Hok _].
      apply andb_true_iff in Hok. destruct Hok as [Hlt Hall].
      apply Z.ltb_lt in Hlt.
      assert (Hopen : complete i = false).
      { unfold tbqs_complete. destruct i as [|s0 i']; [reflexivity|].
        simpl in Hall. apply andb_true_iff in Hall. destruct Hall as [H0 _]. apply Z.eqb_eq in H0.
        rewrite H0. apply Z.eqb_neq. lia. }
      pose proof (Hinv gid) as Hgid. rewrite Hi, Hopen in Hgid.
      destruct (tbq_get st gid) as [[tot0 l]|] eqn:Hget; simpl in Hgid; [|discriminate].
      inversion Hgid; subst l. clear Hgid.
      simpl tbqs_instance. rewrite Hmem, Hnum, Hn, Hi.
      assert (Hlen : Z.of_nat (length (rev i ++ [s])) = Z.of_nat (length (s :: i))).
      { rewrite app_length, rev_length. simpl. f_equal. lia. }
      rewrite Hlen, (Z.eqb_sym t).
      destruct (Z.of_nat (length (s :: i)) =? t) eqn:Hfull; simpl negb; cbv iota.
      + (* the group is complete: delivered and forgotten *)
        split; [reflexivity|]. simpl fst. split; [apply tbq_del_nodup; now apply tbq_set_nodup|].
        intro g. destruct (Z.eq_dec g gid) as [->|Hne].
        * rewrite tbq_get_del_same by now apply tbq_set_nodup.
          simpl tbqs_instance. rewrite Hmem, Hnum, Hn, Hi.
          unfold tbqs_complete. rewrite Htot, Hfull. reflexivity.
        * rewrite tbq_get_del_other, tbq_get_set_other by exact Hne.
          rewrite instance_skip by (eapply member_other; eauto). apply Hinv.
      + split; [reflexivity|]. simpl fst. split; [now apply tbq_set_nodup|].
        intro g. destruct (Z.eq_dec g gid) as [->|Hne].
        * rewrite tbq_get_set_same. simpl tbqs_instance. rewrite Hmem, Hnum, Hn, Hi.
          unfold tbqs_complete. rewrite Htot, Hfull. reflexivity.
        * rewrite tbq_get_set_other by exact Hne.
          rewrite instance_skip by (eapply member_other; eauto). apply Hinv.
  Qed.

  (* ---------------------------------------------------------------- the run *)
  Lemma tbq_run_from_spec : forall ss rp st,
    inv rp st -> forallb tb_parses ss = true -> tbqs_wf_from grp_of rp ss = true ->
    tbq_run_from uni st ss = tbqs_from grp_of rp ss.
  Proof.
    induction ss as [|s r IH]; intros rp st Hinv Hp Hwf; [reflexivity|].
    simpl in *. apply andb_true_iff in Hp. destruct Hp as [Hp Hpr].
    apply andb_true_iff in Hwf. destruct Hwf as [Hok Hwf].
    rewrite tbq_step_astep by exact Hp.
    destruct (single_group_correct rp st s Hinv Hok) as [Hout Hinv'].
    destruct (astep st s) as [st' out]. simpl in *. subst out.
    f_equal. apply IH; assumption.
  Qed.

  Theorem tbq_run_spec : forall ss,
    forallb tb_parses ss = true -> tbqs_wf grp_of ss = true ->
    tbq_run uni ss = tbqs_groups grp_of ss.
  Proof. intros ss Hp Hwf. apply tbq_run_from_spec; auto. apply inv_init. Qed.
End WithOracle.

(* ---------------------------------------------------------------- what the specification itself guarantees *)
Section SpecFacts.
  Context {A : Type} (grp : A -> option (Z * Z * Z)).

  Lemma tbqs_instance_members : forall g rl i, tbqs_instance grp g rl = Some i ->
    Forall (fun x => tbqs_member grp g x = true) i.
  Proof.
    intros g rl. induction rl as [|s r IH]; intros i H; simpl in H; [discriminate|].
    destruct (tbqs_member grp g s) eqn:Em; [|auto].
    destruct (tbqs_num grp s =? 1).
    - inversion H; subst. repeat constructor. assumption.
    - destruct (tbqs_instance grp g r) as [i'|]; [|discriminate]. inversion H; subst. constructor; auto.
  Qed.

  (* unmixed: whatever is delivered is the arriving ungrouped sentence alone, or sentences of one group id only *)
  Lemma tbqs_step_unmixed : forall rp s l, In l (tbqs_step grp rp s) ->
    l = [s] \/ exists g, Forall (fun x => tbqs_member grp g x = true) l.
  Proof.
    intros rp s l H. unfold tbqs_step in H.
    destruct (grp s) as [[[n t] g]|]; [|destruct H as [<-|[]]; now left].
    destruct (t =? 1); [destruct H as [<-|[]]; now left|].
    destruct (tbqs_instance grp g (s :: rp)) as [i|] eqn:Ei; [|destruct H].
    destruct (Z.of_nat (length i) =? t); [|destruct H].
    destruct H as [<-|[]]. right. exists g. apply Forall_rev. eapply tbqs_instance_members; eauto.
  Qed.

  (* complete: a delivered group has as many sentences as its total says *)
  Lemma tbqs_step_complete : forall rp s n t g, grp s = Some (n, t, g) -> t <> 1 ->
    forall l, In l (tbqs_step grp rp s) -> Z.of_nat (length l) = t /\ In s l.
  Proof.
    intros rp s n t g Hg Ht l H. unfold tbqs_step in H. rewrite Hg in H.
    destruct (t =? 1) eqn:E; [apply Z.eqb_eq in E; congruence|].
    destruct (tbqs_instance grp g (s :: rp)) as [i|] eqn:Ei; [|destruct H].
    destruct (Z.of_nat (length i) =? t) eqn:El; [|destruct H].
    destruct H as [<-|[]]. rewrite rev_length. split; [now apply Z.eqb_eq|].
    apply -> in_rev.
    simpl in Ei. destruct (tbqs_member grp g s) eqn:Em.
    - destruct (tbqs_num grp s =? 1); [inversion Ei; now left|].
      destruct (tbqs_instance grp g rp); inversion Ei. now left.
    - exfalso. unfold tbqs_member in Em. rewrite Hg, E, Z.eqb_refl in Em. discriminate.
  Qed.
End SpecFacts.

(* ---------------------------------------------------------------- concrete sentences for the non-vacuity examples *)
Definition ex_sentence (idx : Z) (tb : option (list Z)) : sentence :=
  SAis (mkAis (mkCommon [33; 48 + idx] [33] [] [] 0 0 true [] tb) 1 1 None [65] [] [] 1 None).
(* "g:<n>-<t>-<g>*00" for one-digit numbers *)
Definition ex_group_tb (n t g : Z) : list Z := [103; 58; 48 + n; 45; 48 + t; 45; 48 + g; 42; 48; 48].
Definition ex_uni : Z -> list Z -> option Z := fun _ _ => None.
