(* C08 per field: decoding the bits of a field, encoding the decoded value and decoding again gives the same value
   (one decode normalises); for the kinds that are not normalised at all the re-encoded bits are the received ones.
   Unbounded in widths and values; the rate of turn (256 codes) and the enumerations (all codes of the field width,
   at most 2^8) are finite checks against the regenerated tables. *)
From Coq Require Import ZArith List Bool String Lia.
Require Import Prim.Exn Prim.Bits Gen.GenEnums Model.FieldTypes Gen.GenTables Gen.GenConv Gen.GenAlpha Model.Codec.
Require Import Spec.Layout Spec.RoundTripSpec Proofs.RoundTripBits Proofs.RoundTripLoops Proofs.RoundTripKinds
               Proofs.RoundTripField Proofs.RoundTripTol Proofs.RoundTripDispatch.
Import ListNotations.
Open Scope Z_scope.
Open Scope exn_scope.

Local Notation len := (@List.length bool).
Local Notation concat := (@List.concat bool).

(* what happens to the received bits [b] of one field *)
Definition field_stable (f : field) (b : bits) (r : value) (b' : bits) : Prop :=
  exists r0, decode_field f b = Ok r0 /\ apply_opt_conv (f_attrs_conv f) r0 = Ok r /\ r <> VNone /\
             bits_of_field f r = Ok b' /\ (len b' <= f_width f)%nat /\
             (b' <> [] -> exists r0', decode_field f b' = Ok r0' /\ apply_opt_conv (f_attrs_conv f) r0' = Ok r).

(* ------------------------------------------------------------------------------------------------ *)
(* kinds whose bits are re-emitted as they are                                                        *)

Lemma stable_U ex f b : field_impl KU ex f = true -> b <> [] -> len b = f_width f ->
  exists r, field_stable f b r b.
Proof.
  cbn [field_impl]. intros H Hne Hl.
  apply andb_prop in H as [H Ha]. apply andb_prop in H as [H Ht]. apply andb_prop in H as [H Hf].
  apply andb_prop in H as [Hd Hs]. apply is_dtype_inv in Hd. apply negb_true_iff in Hs.
  apply conv_none_inv in Ha, Ht.
  assert (f_from f = None \/ f_from f = Some (CNamed "from_mmsi"%string)) as Hf'.
  { apply orb_prop in Hf as [Hf|Hf]; [left; apply conv_none_inv|right; apply conv_named_inv]; assumption. }
  exists (VInt (ubits b)). unfold field_stable. exists (VInt (ubits b)).
  rewrite decode_int by assumption. rewrite Hs, Ht, Ha. cbn [apply_opt_conv].
  assert (bits_of_field f (VInt (ubits b)) = Ok b) as E.
  { unfold bits_of_field, encode_field.
    assert (apply_opt_conv (f_from f) (VInt (ubits b)) = Ok (VInt (ubits b))) as ->.
    { destruct Hf' as [-> | ->]; [reflexivity|]. cbn [apply_opt_conv].
      rewrite (apply_named _ _ _ (proj1 conv_table_entries)). reflexivity. }
    cbn [bind]. rewrite Hd. cbn [value_as_int bind]. rewrite Hs, <- Hl, int_to_bin_ubits by assumption. cbn [bind].
    rewrite firstn_all. reflexivity. }
  repeat split; try assumption; try discriminate; try lia.
  intros _. eexists; split; reflexivity.
Qed.

Lemma stable_B ex f b : field_impl KB ex f = true -> len b = 1%nat -> f_width f = 1%nat ->
  exists r, field_stable f b r b.
Proof.
  cbn [field_impl]. intros H Hl Hw.
  apply andb_prop in H as [H Hp]. apply andb_prop in H as [Hd Hs].
  apply is_dtype_inv in Hd. apply negb_true_iff in Hs. apply plain_inv in Hp as (Hf & Ht & Ha).
  destruct b as [|x [|y ys]]; try discriminate.
  assert (negb (ubits [x] =? 0) = x) as Ex by (destruct x; reflexivity).
  exists (VBool x). unfold field_stable. exists (VBool x).
  rewrite decode_bool by assumption. rewrite Ht, Ha, Ex. cbn [apply_opt_conv].
  assert (bits_of_field f (VBool x) = Ok [x]) as E.
  { unfold bits_of_field, encode_field. rewrite Hf. cbn [apply_opt_conv bind]. rewrite Hd. cbn [value_as_int bind].
    rewrite Hs, Hw. change (b2z x) with (ubits [x]) at 1. change 1%nat with (len [x]) at 1.
    rewrite (int_to_bin_ubits [x]) by discriminate. reflexivity. }
  repeat split; try assumption; try discriminate; try (cbn; lia).
  intros _. eexists; split; reflexivity.
Qed.

(* the fraction a model float denotes *)
Lemma as_frac_mkfloat n d : 0 < d ->
  exists n' d', as_frac (mkfloat n d) = Some (n', Zpos d') /\ n' * d = n * Zpos d' /\ mkfloat n d <> VNone.
Proof.
  intros Hd. unfold mkfloat. destruct (Z.eqb_spec d 0); [lia|].
  destruct (Z.eqb_spec (n mod d) 0) as [E|E].
  - exists (n / d), 1%positive. cbn [as_frac]. repeat split; try discriminate.
    pose proof (Z.div_mod n d ltac:(lia)). nia.
  - exists n, (Z.to_pos d). cbn [as_frac]. rewrite Z2Pos.id by assumption. repeat split; try lia; discriminate.
Qed.

Lemma pack_back (s : bool) b : b <> [] ->
  int_to_bin (if s then sbits b else ubits b) (len b) s = Ok b.
Proof. intros H. destruct s; [apply int_to_bin_sbits|apply int_to_bin_ubits]; assumption. Qed.

(* the common skeleton of the scaled kinds: the decoded value is sent as the code it was read from *)
Lemma stable_float f b y : f_dtype f = DFloat -> f_attrs_conv f = None -> b <> [] -> len b = f_width f ->
  apply_opt_conv (f_to f) (VFloat (if f_signed f then sbits b else ubits b) 1) = Ok y -> y <> VNone ->
  (exists val, apply_opt_conv (f_from f) y = Ok val /\
               value_as_int val = Ok (if f_signed f then sbits b else ubits b)) ->
  field_stable f b y b.
Proof.
  intros Hd Ha Hne Hl Hto Hy (val & Hfrom & Hval).
  unfold field_stable. exists y. rewrite decode_float by assumption. rewrite Ha. cbn [apply_opt_conv].
  assert (bits_of_field f y = Ok b) as E.
  { apply (bits_of_float f y val (if f_signed f then sbits b else ubits b)); try assumption.
    rewrite <- Hl. apply pack_back. assumption. }
  repeat split; try assumption; try lia.
  intros _. exists y. split; [exact Hto|reflexivity].
Qed.

Lemma stable_trunc10 k ex f b : (k = KU10 \/ k = KI10) -> field_impl k ex f = true -> b <> [] -> len b = f_width f ->
  exists r, field_stable f b r b.
Proof.
  intros Hk H Hne Hl.
  assert (f_dtype f = DFloat /\ f_attrs_conv f = None /\
          (exists sh, (sh = ShMul (mkDec 10 0) \/ sh = ShFloatMul (mkDec 10 0)) /\
                      forall v, apply_opt_conv (f_from f) v = apply_shape sh v) /\
          (forall v, apply_opt_conv (f_to f) v = apply_shape (ShDiv (mkDec 10 0)) v)) as (Hd & Ha & (sh & Hsh & Hf) & Ht).
  { destruct conv_table_entries as (_ & T1 & T2 & T3 & T4 & _).
    destruct Hk as [-> | ->]; cbn [field_impl] in H.
    - apply andb_prop in H as [H Hp]. apply andb_prop in H as [Hd Hs].
      apply is_dtype_inv in Hd. repeat split; try assumption.
      + apply orb_prop in Hp as [Hp|Hp]; apply conv_pair_inv in Hp as (_ & _ & Ha); exact Ha.
      + apply orb_prop in Hp as [Hp|Hp]; apply conv_pair_inv in Hp as (Hf & _ & _); rewrite Hf; cbn [apply_opt_conv];
          eexists; (split; [|intros v; apply apply_named; eassumption]); auto.
      + apply orb_prop in Hp as [Hp|Hp]; apply conv_pair_inv in Hp as (_ & Ht & _); rewrite Ht; intros v;
          cbn [apply_opt_conv]; apply apply_named; assumption.
    - apply andb_prop in H as [H Hp]. apply andb_prop in H as [Hd Hs]. apply is_dtype_inv in Hd.
      apply conv_pair_inv in Hp as (Hf & Ht & Ha). repeat split; try assumption.
      + rewrite Hf. eexists; split; [right; reflexivity|]. intros v. cbn [apply_opt_conv]. apply apply_named. assumption.
      + rewrite Ht. intros v. cbn [apply_opt_conv]. apply apply_named. assumption. }
  set (code := if f_signed f then sbits b else ubits b).
  exists (mkfloat code 10). apply stable_float; try assumption.
  - rewrite Ht. fold code. cbn. rewrite !Z.mul_1_r. reflexivity.
  - apply mkfloat_not_none. lia.
  - fold code. destruct (as_frac_mkfloat code 10 ltac:(lia)) as (n' & d' & Ef & Eq & _).
    exists (mkfloat (n' * 10) (Zpos d' * 1)). split.
    + rewrite Hf. destruct Hsh as [-> | ->]; cbn [apply_shape]; rewrite Ef; reflexivity.
    + rewrite value_as_int_mkfloat by lia. f_equal. rewrite Z.mul_1_r.
      replace (n' * 10) with (code * Zpos d') by lia. apply Z.quot_mul. lia.
Qed.

Lemma stable_F1 ex f b : field_impl KF1 ex f = true -> b <> [] -> len b = f_width f ->
  exists r, field_stable f b r b.
Proof.
  cbn [field_impl]. intros H Hne Hl.
  apply andb_prop in H as [H Hp]. apply andb_prop in H as [Hd Hs].
  apply is_dtype_inv in Hd. apply plain_inv in Hp as (Hf & Ht & Ha).
  eexists. apply stable_float; try assumption.
  - rewrite Ht. reflexivity.
  - discriminate.
  - eexists. rewrite Hf. split; [reflexivity|]. cbn. unfold trunc_div. rewrite Z.quot_1_r. reflexivity.
Qed.

Lemma stable_LL k scale ex f b :
  (k = KLL /\ scale = 600000 \/ k = KLL600 /\ scale = 600) -> field_impl k ex f = true -> b <> [] -> len b = f_width f ->
  exists r, field_stable f b r b.
Proof.
  intros Hk H Hne Hl.
  assert (f_dtype f = DFloat /\ f_signed f = true /\ f_attrs_conv f = None /\
          (forall v, apply_opt_conv (f_from f) v = apply_shape (ShRoundFloatMul (mkDec scale 0)) v) /\
          (forall v, apply_opt_conv (f_to f) v = apply_shape (ShRoundFloatDiv (mkDec scale 0) 6) v)) as (Hd & Hs & Ha & Hf & Ht).
  { destruct conv_table_entries as (_ & _ & _ & _ & _ & T1 & T2 & T3 & T4 & _).
    destruct Hk as [(-> & ->)|(-> & ->)]; cbn [field_impl] in H;
      apply andb_prop in H as [H Hp]; apply andb_prop in H as [Hd Hs]; apply is_dtype_inv in Hd;
      apply conv_pair_inv in Hp as (Hf & Ht & Ha); repeat split; try assumption;
      try (rewrite Hf; intros v; cbn [apply_opt_conv]; apply apply_named; assumption);
      try (rewrite Ht; intros v; cbn [apply_opt_conv]; apply apply_named; assumption). }
  assert (0 < scale) as Hsc by (destruct Hk as [(_ & ->)|(_ & ->)]; lia).
  set (code := sbits b). set (Y := rhe (code * 1000000) scale).
  exists (mkfloat Y 1000000). apply stable_float; try assumption.
  - rewrite Ht, Hs. apply shape_round_div. exact Hsc.
  - apply mkfloat_not_none. lia.
  - rewrite Hs. fold code. destruct (as_frac_mkfloat Y 1000000 ltac:(lia)) as (n' & d' & Ef & Eq & _).
    exists (VInt (rhe (n' * scale) (Zpos d'))). split.
    + rewrite Hf. unfold apply_shape. rewrite Ef. unfold dec_num_den, pow10. cbn [dec_num dec_exp].
      change (10 ^ Z.of_nat 0) with 1. rewrite Z.mul_1_r. reflexivity.
    + cbn [value_as_int]. f_equal. rewrite rhe_is_round_half_even. apply rhe_unique; [lia|].
      pose proof (rhe_spec (code * 1000000) scale Hsc) as B.
      change (round_half_even (code * 1000000) scale) with Y in B.
      assert (2 * scale * (Y * Zpos d') - scale * Zpos d' <= 2 * 1000000 * (code * Zpos d')
              <= 2 * scale * (Y * Zpos d') + scale * Zpos d') as B2 by nia.
      rewrite <- Eq in B2. set (Q := code * Zpos d') in *.
      destruct Hk as [(_ & ->)|(_ & ->)]; lia.
Qed.

(* ------------------------------------------------------------------------------------------------ *)
(* binary data                                                                                        *)

Lemma concat_chunks {A} n (l : list A) : (0 < n)%nat -> List.concat (chunks n l) = l.
Proof.
  intros Hn. revert l. apply (chunk_induction n); [assumption|reflexivity|].
  intros l Hne IH. rewrite chunks_step by assumption. cbn [List.concat]. rewrite IH. apply firstn_skipn.
Qed.

Lemma chunks_all_full {A} n (l : list A) : (0 < n)%nat -> (List.length l mod n = 0)%nat ->
  Forall (fun c => List.length c = n) (chunks n l).
Proof.
  intros Hn. revert l. apply (chunk_induction n (fun l => (List.length l mod n = 0)%nat -> Forall (fun c => List.length c = n) (chunks n l)));
    [assumption|constructor|].
  intros l Hne IH Hm. rewrite chunks_step by assumption.
  assert (n <= List.length l)%nat as Hge.
  { destruct (Nat.lt_ge_cases (List.length l) n) as [Hlt|]; [|assumption].
    rewrite Nat.mod_small in Hm by assumption. destruct l; [congruence|discriminate]. }
  constructor.
  - rewrite firstn_length. lia.
  - apply IH. rewrite skipn_length.
    replace (List.length l) with ((List.length l - n) + 1 * n)%nat in Hm by lia.
    rewrite Nat.mod_add in Hm by lia. exact Hm.
Qed.

Lemma pad8_length_mod b : (len (pad8 b) mod 8 = 0)%nat.
Proof.
  unfold pad8, pad_len. rewrite app_length, repeat_length.
  pose proof (Nat.div_mod (len b) 8 ltac:(lia)) as E. pose proof (Nat.mod_upper_bound (len b) 8 ltac:(lia)) as B.
  destruct (Nat.eq_dec (len b mod 8) 0) as [Z0|NZ].
  - rewrite Z0. cbn. rewrite Nat.add_0_r. exact Z0.
  - rewrite (Nat.mod_small (8 - len b mod 8) 8) by lia.
    replace (len b + (8 - len b mod 8))%nat with ((len b / 8 + 1) * 8)%nat by lia. apply Nat.mod_mul. lia.
Qed.

Lemma bytes_to_bits_of_bits b : bytes_to_bits (bits_to_bytes b) = pad8 b.
Proof.
  unfold bits_to_bytes, bytes_to_bits. rewrite flat_map_concat_map, map_map.
  pose proof (chunks_all_full 8 (pad8 b) ltac:(lia) (pad8_length_mod b)) as Hf.
  rewrite <- (concat_chunks 8 (pad8 b)) at 2 by lia. f_equal.
  induction Hf as [|c cs Hc _ IH]; [reflexivity|]. cbn [map]. rewrite IH. f_equal.
  unfold byte_to_bits. rewrite <- Hc. apply z_to_bits_ubits.
Qed.

Lemma bits_to_bytes_nonempty b : b <> [] -> bits_to_bytes b <> [].
Proof.
  intros Hne E. apply (f_equal bytes_to_bits) in E. rewrite bytes_to_bits_of_bits in E. cbn in E.
  unfold pad8 in E. destruct b; [congruence|discriminate].
Qed.

Lemma bits_to_bytes_ok b : forallb byte_ok (bits_to_bytes b) = true.
Proof.
  unfold bits_to_bytes. apply forallb_forall. intros x Hx. apply in_map_iff in Hx as (c & <- & Hc).
  pose proof (chunks_all_full 8 (pad8 b) ltac:(lia) (pad8_length_mod b)) as Hf. rewrite Forall_forall in Hf.
  specialize (Hf c Hc). pose proof (ubits_bound c) as B. rewrite Hf in B. change (2 ^ Z.of_nat 8) with 256 in B.
  unfold byte_ok. apply andb_true_intro. split; [apply Z.leb_le|apply Z.ltb_lt]; lia.
Qed.

Lemma stable_bytes k ex f b : (k = KD \/ k = KX) -> field_impl k ex f = true -> b <> [] -> (len b <= f_width f)%nat ->
  (len b = f_width f \/ (len b mod 8 = 0)%nat) ->
  exists r, field_stable f b r b.
Proof.
  intros Hk H Hne Hle Hal.
  assert (f_dtype f = DBytes /\ f_from f = None /\ f_to f = None /\ f_attrs_conv f = None) as (Hd & Hf & Ht & Ha).
  { destruct Hk as [-> | ->]; cbn [field_impl] in H; apply andb_prop in H as [Hd Hp];
      apply is_dtype_inv in Hd; apply plain_inv in Hp; tauto. }
  exists (VBytes (bits_to_bytes b)). unfold field_stable. exists (VBytes (bits_to_bytes b)).
  assert (decode_field f b = Ok (VBytes (bits_to_bytes b))) as Ed by (unfold decode_field; rewrite Hd, Ht; reflexivity).
  assert (firstn (f_width f) (pad8 b) = b) as Efirst.
  { unfold pad8. destruct Hal as [E|E].
    - rewrite firstn_app, E, Nat.sub_diag, <- E, firstn_all. cbn. apply app_nil_r.
    - unfold pad_len. rewrite E. cbn [repeat]. rewrite app_nil_r. apply firstn_all2. exact Hle. }
  assert (bits_of_field f (VBytes (bits_to_bytes b)) = Ok b) as E.
  { unfold bits_of_field, encode_field. rewrite Hf. cbn [apply_opt_conv bind]. rewrite Hd. cbn [bind].
    unfold bytes2bits. pose proof (bits_to_bytes_nonempty b Hne).
    destruct (bits_to_bytes b) eqn:Eb; [congruence|]. rewrite <- Eb, bytes_to_bits_of_bits, Efirst. reflexivity. }
  rewrite Ed, Ha. cbn [apply_opt_conv].
  repeat split; try assumption; try discriminate.
  intros _. eexists; split; reflexivity.
Qed.

(* ------------------------------------------------------------------------------------------------ *)
(* rate of turn: all 256 codes, on the model of the regenerated converter pair                        *)

Definition value_eqb (a b : value) : bool :=
  match a, b with
  | VFloat n d, VFloat n' d' => (n =? n') && Pos.eqb d d'
  | VTurn c, VTurn c' => c =? c'
  | _, _ => false
  end.
Lemma value_eqb_eq a b : value_eqb a b = true -> a = b /\ a <> VNone.
Proof.
  destruct a, b; cbn; try discriminate; intros H.
  - apply andb_prop in H as [A B]. apply Z.eqb_eq in A. apply Pos.eqb_eq in B. subst. split; [reflexivity|discriminate].
  - apply Z.eqb_eq in H. subst. split; [reflexivity|discriminate].
Qed.

Definition to_turn_m (c : Z) : M value := apply_shape (ShToTurn 127 128 (mkDec 4733 3)) (VFloat c 1).
Definition from_turn_m (y : value) : M value := apply_shape (ShFromTurn 127 128 (mkDec 4733 3)) y.

(* "not normalised" for a rate-of-turn code, as Spec/RoundTripSpec.v raw_fix_kind states it *)
Definition rot_fix (c : Z) : bool :=
  match spec_turn c with SFrac n d => rot_code n d =? c | _ => true end.

Definition rot_model_ok (c : Z) : bool :=
  match to_turn_m c with
  | Ok y => match from_turn_m y with
            | Ok (VInt c') => (-128 <=? c') && (c' <=? 127)
                              && (match to_turn_m c' with Ok y' => value_eqb y y' | Raise _ => false end)
                              && implb (rot_fix c) (c' =? c)
            | _ => false
            end
  | Raise _ => false
  end.

Lemma rot_codes_checked : forallb rot_model_ok (zrange (-128) 127) = true.
Proof. vm_compute. reflexivity. Qed.

Lemma rot_code_model c : -128 <= c <= 127 ->
  exists y c', to_turn_m c = Ok y /\ y <> VNone /\ from_turn_m y = Ok (VInt c') /\ -128 <= c' <= 127 /\
               to_turn_m c' = Ok y /\ (rot_fix c = true -> c' = c).
Proof.
  intros Hc. pose proof rot_codes_checked as K. rewrite forallb_forall in K.
  specialize (K c (in_zrange_ (-128) 127 c Hc)). unfold rot_model_ok in K.
  destruct (to_turn_m c) as [y|] eqn:Ty; [|discriminate].
  destruct (from_turn_m y) as [[ |c'| | | | | |]|] eqn:Fy; try discriminate.
  apply andb_prop in K as [K K4]. apply andb_prop in K as [K K3]. apply andb_prop in K as [K1 K2].
  apply Z.leb_le in K1, K2. destruct (to_turn_m c') as [y'|] eqn:Ty'; [|discriminate].
  apply value_eqb_eq in K3 as (<- & Hn).
  exists y, c'. split; [reflexivity|]. split; [exact Hn|]. split; [exact Fy|]. split; [lia|]. split; [exact Ty'|].
  intros Hf. rewrite Hf in K4. cbn in K4. apply Z.eqb_eq in K4. exact K4.
Qed.

Lemma sval_sbits b : sval_ b = sbits b.
Proof. unfold sval_, sbits. destruct b as [|[|] r]; rewrite ?uval_ubits; reflexivity. Qed.

Lemma stable_ROT ex f b : field_impl KROT ex f = true -> len b = f_width f ->
  exists r b', field_stable f b r b' /\ len b' = f_width f /\ b' <> [] /\ (rot_fix (sbits b) = true -> b' = b).
Proof.
  cbn [field_impl]. intros H Hl.
  apply andb_prop in H as [H Hw8]. apply andb_prop in H as [H Hp]. apply andb_prop in H as [Hd Hs].
  apply is_dtype_inv in Hd. apply Nat.eqb_eq in Hw8. apply conv_pair_inv in Hp as (Hf & Ht & Ha).
  destruct conv_table_entries as (_ & _ & _ & _ & _ & _ & _ & _ & _ & T1 & T2).
  assert (forall v, apply_opt_conv (f_from f) v = from_turn_m v) as Hfrom.
  { intros v. rewrite Hf. cbn [apply_opt_conv]. apply apply_named. assumption. }
  assert (forall c, apply_opt_conv (f_to f) (VFloat c 1) = to_turn_m c) as Hto.
  { intros c. rewrite Ht. cbn [apply_opt_conv]. apply apply_named. assumption. }
  assert (b <> []) as Hne by (apply pos_len_ne; lia).
  pose proof (sbits_bound b Hne) as Bc. rewrite Hl, Hw8 in Bc. change (2 ^ (Z.of_nat 8 - 1)) with 128 in Bc.
  destruct (rot_code_model (sbits b) ltac:(lia)) as (y & c' & Ty & Ny & Fy & Bc' & Ty' & Hfix).
  assert (smin (f_width f) <= c' <= smax (f_width f)) as Hc'.
  { rewrite Hw8. unfold smin, smax. cbn. lia. }
  destruct (pack_code true (f_width f) c' ltac:(lia) Hc') as (b' & E & L & N & V).
  exists y, b'. split; [|split; [exact L|split; [exact N|]]].
  - unfold field_stable. exists y. rewrite decode_float by assumption. rewrite Hs, Hto, Ha. cbn [apply_opt_conv].
    split; [exact Ty|]. split; [reflexivity|]. split; [exact Ny|]. split.
    { apply (bits_of_float f y (VInt c') c'); try assumption; try reflexivity.
      - rewrite Hfrom. exact Fy.
      - rewrite Hs. exact E. }
    split; [lia|]. intros _. exists y. rewrite decode_float by assumption. rewrite Hs, V, Hto. auto.
  - intros Hx. specialize (Hfix Hx). subst c'. apply sbits_inj; try assumption; lia.
Qed.

(* ------------------------------------------------------------------------------------------------ *)
(* enumerations: every code of the field width                                                        *)

Definition enum_field_ok (E : enum_id) (w : nat) : bool :=
  (w <=? 8)%nat &&
  forallb (fun c => match enum_ctor E c with
                    | Ok m => (0 <=? m) && (m <=? umax w)
                              && (match enum_ctor E m with Ok m' => m' =? m | Raise _ => false end)
                    | Raise _ => false
                    end) (zrange 0 (umax w)).

Lemma enum_code_model E w c : enum_field_ok E w = true -> 0 <= c <= umax w ->
  exists m, enum_ctor E c = Ok m /\ 0 <= m <= umax w /\ enum_ctor E m = Ok m.
Proof.
  unfold enum_field_ok. intros H Hc. apply andb_prop in H as [_ H]. rewrite forallb_forall in H.
  specialize (H c (in_zrange_ 0 (umax w) c Hc)).
  destruct (enum_ctor E c) as [m|]; [|discriminate]. exists m.
  apply andb_prop in H as [H H3]. apply andb_prop in H as [H1 H2]. apply Z.leb_le in H1, H2.
  destruct (enum_ctor E m) as [m'|]; [|discriminate]. apply Z.eqb_eq in H3. subst m'. auto.
Qed.

Lemma stable_E e ex f b : field_impl (KE e) ex f = true -> enum_field_ok (enum_of_senum e) (f_width f) = true ->
  b <> [] -> len b = f_width f ->
  exists r b', field_stable f b r b' /\ len b' = f_width f /\ b' <> [] /\
               (zmem_ (ubits b) (senum_defined e) = true -> b' = b).
Proof.
  cbn [field_impl]. intros H Hok Hne Hl.
  apply andb_prop in H as [H Hst]. apply andb_prop in H as [Hd Hs].
  apply is_dtype_inv in Hd. apply negb_true_iff in Hs.
  set (E := enum_of_senum e) in *.
  pose proof (ubits_bound b) as Bb. rewrite Hl in Bb.
  destruct (enum_code_model E (f_width f) (ubits b) Hok ltac:(unfold umax; lia)) as (m & Hc & Hm & Hmm).
  assert (0 < f_width f)%nat as Hw by (rewrite <- Hl; destruct b; [congruence|cbn; lia]).
  destruct (pack_code false (f_width f) m Hw Hm) as (b' & Eb & L & N & V).
  assert (zmem_ (ubits b) (senum_defined e) = true -> b' = b) as Hfix.
  { intros Hz. destruct (defined_is_member e _ Hz) as (Hc2 & _). fold E in Hc2. rewrite Hc in Hc2. injection Hc2 as ->.
    apply ubits_inj; congruence. }
  exists (VEnum E m), b'. split; [|auto].
  unfold field_stable. unfold enum_style in Hst.
  destruct (f_from f) as [[nm|a|a]|] eqn:Hf; destruct (f_to f) as [[nm'|a'|a']|] eqn:Ht;
    destruct (f_attrs_conv f) as [[nm''|a''|a'']|] eqn:Ha; try discriminate.
  - apply andb_prop in Hst as [A B]. apply enum_eqb_eq in A, B. subst a a'.
    exists (VEnum E m). rewrite decode_int by assumption. rewrite Hs, Ht. cbn [apply_opt_conv apply_conv enum_of_value].
    rewrite Hc. cbn [bind]. split; [reflexivity|]. split; [reflexivity|]. split; [discriminate|]. split.
    { unfold bits_of_field, encode_field. rewrite Hf. cbn [apply_opt_conv apply_conv enum_of_value]. rewrite Hmm.
      cbn [bind]. rewrite Hd. cbn [value_as_int bind]. rewrite Hs, Eb. cbn [bind]. rewrite firstn_exact by assumption. reflexivity. }
    split; [lia|]. intros _. exists (VEnum E m). rewrite decode_int by assumption. rewrite Hs, V, Ht.
    cbn [apply_opt_conv apply_conv enum_of_value]. rewrite Hmm. auto.
  - apply andb_prop in Hst as [A B]. apply enum_eqb_eq in A, B. subst a a'.
    exists (VEnum E m). rewrite decode_int by assumption. rewrite Hs, Ht. cbn [apply_opt_conv apply_conv enum_of_value].
    rewrite Hc. cbn [bind]. split; [reflexivity|]. split; [reflexivity|]. split; [discriminate|]. split.
    { unfold bits_of_field, encode_field. rewrite Hf. cbn [apply_opt_conv apply_conv enum_of_value]. rewrite Hmm.
      cbn [bind]. rewrite Hd. cbn [value_as_int bind]. rewrite Hs, Eb. cbn [bind]. rewrite firstn_exact by assumption. reflexivity. }
    split; [lia|]. intros _. exists (VEnum E m). rewrite decode_int by assumption. rewrite Hs, V, Ht.
    cbn [apply_opt_conv apply_conv enum_of_value]. rewrite Hmm. auto.
  - apply enum_eqb_eq in Hst. subst a''.
    exists (VInt (ubits b)). rewrite decode_int by assumption. rewrite Hs, Ht. cbn [apply_opt_conv apply_conv enum_of_value].
    rewrite Hc. cbn [bind]. split; [reflexivity|]. split; [reflexivity|]. split; [discriminate|]. split.
    { unfold bits_of_field, encode_field. rewrite Hf. cbn [apply_opt_conv bind]. rewrite Hd. cbn [value_as_int bind].
      rewrite Hs, Eb. cbn [bind]. rewrite firstn_exact by assumption. reflexivity. }
    split; [lia|]. intros _. exists (VInt m). rewrite decode_int by assumption. rewrite Hs, V, Ht.
    cbn [apply_opt_conv apply_conv enum_of_value]. rewrite Hmm. auto.
Qed.

(* ------------------------------------------------------------------------------------------------ *)
(* text                                                                                               *)

(* sub-character padding bits (what is left after the last whole character) are zero *)
Definition pad_ok (b : bits) : bool := forallb negb (skipn (6 * (len b / 6)) b).

Definition good_char (c : Z) : bool := (32 <=? c) && (c <=? 95) && negb (c =? 64).

Lemma full_chunks_checked :
  forallb (fun c => let n := ascii6_char c in (n =? 64) || good_char n) (all_bits 6) = true.
Proof. vm_compute. reflexivity. Qed.
Lemma zero_chunks_checked :
  forallb (fun k => ascii6_char (repeat false k) =? 64) [1; 2; 3; 4; 5]%nat = true.
Proof. vm_compute. reflexivity. Qed.

Lemma all_false_repeat (b : bits) : forallb negb b = true -> b = repeat false (len b).
Proof.
  induction b as [|x r IH]; [reflexivity|]. cbn [forallb]. intros H. apply andb_prop in H as [Hx Hr].
  destruct x; [discriminate|]. cbn [List.length repeat]. f_equal. apply IH. exact Hr.
Qed.

Lemma skipn_skipn_ {A} (l : list A) : forall n m, skipn m (skipn n l) = skipn (n + m) l.
Proof.
  induction l as [|x r IH]; intros n m; [rewrite !skipn_nil; reflexivity|].
  destruct n; [reflexivity|]. cbn [skipn plus]. apply IH.
Qed.

Lemma decoded_chars b : pad_ok b = true ->
  (List.length (ascii6_loop (chunks 6 b)) <= len b / 6)%nat /\
  forallb good_char (ascii6_loop (chunks 6 b)) = true.
Proof.
  revert b. apply (chunk_induction 6 (fun b => pad_ok b = true ->
     (List.length (ascii6_loop (chunks 6 b)) <= len b / 6)%nat /\ forallb good_char (ascii6_loop (chunks 6 b)) = true)); [lia| |].
  - intros _. split; [cbn; lia|reflexivity].
  - intros l Hne IH Hp. rewrite chunks_step by (try lia; assumption). cbn [ascii6_loop].
    destruct (Nat.lt_ge_cases (len l) 6) as [Hlt|Hge].
    + (* only padding bits left *)
      unfold pad_ok in Hp. rewrite (Nat.div_small (len l) 6 Hlt) in Hp. cbn [Nat.mul skipn] in Hp.
      rewrite firstn_all2 by lia. rewrite (all_false_repeat l Hp).
      pose proof zero_chunks_checked as K. rewrite forallb_forall in K.
      assert (In (len l) [1; 2; 3; 4; 5]%nat) as Hin by (destruct l; [congruence|cbn in *; lia]).
      rewrite (K _ Hin). split; [cbn; lia|reflexivity].
    + assert (len (firstn 6 l) = 6%nat) as L6 by (rewrite firstn_length; lia).
      pose proof full_chunks_checked as K. rewrite forallb_forall in K. specialize (K _ (in_all_bits 6 _ L6)).
      cbn zeta in K.
      assert (len l / 6 = S (len (skipn 6 l) / 6))%nat as Ediv.
      { rewrite skipn_length. replace (len l) with ((len l - 6) + 1 * 6)%nat at 1 by lia.
        rewrite Nat.div_add by lia. lia. }
      destruct (ascii6_char (firstn 6 l) =? 64) eqn:E64; [split; [cbn; lia|reflexivity]|].
      cbn [orb] in K.
      assert (pad_ok (skipn 6 l) = true) as Hp'.
      { unfold pad_ok in *. rewrite Ediv in Hp.
        replace (6 * S (len (skipn 6 l) / 6))%nat with (6 + 6 * (len (skipn 6 l) / 6))%nat in Hp by lia.
        rewrite <- skipn_skipn_ in Hp. exact Hp. }
      destruct (IH Hp') as (A & B). cbn [List.length forallb]. rewrite K, B. split; [lia|reflexivity].
Qed.

(* blanks: trimming twice is trimming once *)
Definition hd_ok (l : list Z) : Prop := match l with c :: _ => c <> 32 | [] => True end.

Lemma ltrim_hd l : hd_ok (ltrim l).
Proof.
  induction l as [|c r IH]; [exact I|]. cbn [ltrim]. destruct (Z.eqb_spec c 32); [exact IH|]. cbn. assumption.
Qed.
Lemma ltrim_fix l : hd_ok l -> ltrim l = l.
Proof. destruct l as [|c r]; [reflexivity|]. cbn. intros H. destruct (Z.eqb_spec c 32); [contradiction|reflexivity]. Qed.

Lemma hd_ok_app_single l c : l <> [] -> hd_ok (l ++ [c]) <-> hd_ok l.
Proof. destruct l; [congruence|]. intros _. reflexivity. Qed.

Lemma hd_ok_rev_ltrim l : hd_ok (rev l) -> hd_ok (rev (ltrim l)).
Proof.
  induction l as [|c r IH]; [trivial|]. cbn [ltrim]. destruct (Z.eqb_spec c 32) as [->|N]; [|trivial].
  cbn [rev]. intros H. destruct r as [|c' r']; [exact I|].
  apply IH. apply (hd_ok_app_single (rev (c' :: r')) 32); [|exact H].
  cbn [rev]. intro E. apply app_eq_nil in E as [_ E]. discriminate.
Qed.

Lemma trim_idem s : trim (trim s) = trim s.
Proof.
  unfold trim. set (u := ltrim s). set (w := ltrim (rev u)).
  assert (hd_ok (rev w)) as H1.
  { unfold w. apply hd_ok_rev_ltrim. rewrite rev_involutive. apply ltrim_hd. }
  rewrite (ltrim_fix (rev w) H1), rev_involutive. rewrite (ltrim_fix w (ltrim_hd _)). reflexivity.
Qed.

Lemma ltrim_sub (p : Z -> bool) l : forallb p l = true -> forallb p (ltrim l) = true /\ (List.length (ltrim l) <= List.length l)%nat.
Proof.
  induction l as [|c r IH]; [auto|]. cbn [forallb ltrim]. intros H. apply andb_prop in H as [Hc Hr].
  destruct (c =? 32).
  - destruct (IH Hr). cbn [List.length]. split; [assumption|lia].
  - cbn [forallb]. rewrite Hc, Hr. auto.
Qed.

Lemma forallb_rev {A} (p : A -> bool) l : forallb p (rev l) = forallb p l.
Proof.
  induction l as [|x r IH]; [reflexivity|]. cbn [rev forallb]. rewrite forallb_app, IH. cbn. rewrite andb_true_r. apply andb_comm.
Qed.

Lemma trim_sub (p : Z -> bool) l : forallb p l = true -> forallb p (trim l) = true /\ (List.length (trim l) <= List.length l)%nat.
Proof.
  intros H. unfold trim. destruct (ltrim_sub p l H) as (A & B).
  assert (forallb p (rev (ltrim l)) = true) as A' by (rewrite forallb_rev; exact A).
  destruct (ltrim_sub p _ A') as (C & D). rewrite forallb_rev, rev_length. rewrite rev_length in D. split; [exact C|lia].
Qed.

Lemma good_char_props c : good_char c = true -> text_char_ok c = true /\ up c = c /\ (c =? 64) = false.
Proof.
  unfold good_char, text_char_ok, up. intros H. apply andb_prop in H as [H H3]. apply andb_prop in H as [H1 H2].
  apply Z.leb_le in H1, H2. apply negb_true_iff in H3.
  destruct (Z.leb_spec 97 c); [lia|]. cbn [andb]. rewrite H3.
  repeat split. apply andb_true_intro. split; apply Z.leb_le; lia.
Qed.

Lemma good_text_normal s : forallb good_char s = true -> map up s = s /\ cut_at s = s /\ forallb text_char_ok s = true.
Proof.
  induction s as [|c r IH]; [auto|]. cbn [forallb]. intros H. apply andb_prop in H as [Hc Hr].
  destruct (good_char_props c Hc) as (A & B & C). destruct (IH Hr) as (D & E & F).
  cbn [map cut_at forallb]. rewrite B, C, D, E, A, F. auto.
Qed.

(* the text a field decodes to *)
Lemma decoded_text b : pad_ok b = true ->
  let s := decode_bin_as_ascii6 b in
  (List.length s <= len b / 6)%nat /\ forallb text_char_ok s = true /\ norm_text s = s.
Proof.
  intros Hp. cbn zeta. unfold decode_bin_as_ascii6. rewrite strip_is_trim.
  destruct (decoded_chars b Hp) as (Hl & Hg).
  destruct (trim_sub good_char _ Hg) as (Hg' & Hl').
  destruct (good_text_normal _ Hg') as (A & B & C).
  split; [lia|]. split; [exact C|]. unfold norm_text. rewrite A, B. apply trim_idem.
Qed.

Lemma stable_T ex f b : field_impl KT ex f = true -> b <> [] -> (len b <= f_width f)%nat -> pad_ok b = true ->
  exists r b', field_stable f b r b' /\
               r = VStr (decode_bin_as_ascii6 b) /\
               len b' = (if ex then 6 * List.length (decode_bin_as_ascii6 b) else 6 * (f_width f / 6))%nat /\
               (len b' <= (if ex then len b else f_width f))%nat.
Proof.
  cbn [field_impl]. intros H Hne Hle Hp.
  apply andb_prop in H as [H Hv]. apply andb_prop in H as [Hd Hpl].
  apply is_dtype_inv in Hd. apply plain_inv in Hpl as (Hf & Ht & Ha). apply eqb_prop in Hv.
  destruct (decoded_text b Hp) as (Hl & Hok & Hnorm). set (s := decode_bin_as_ascii6 b) in *.
  assert (len b / 6 <= f_width f / 6)%nat as Hdiv by (apply Nat.div_le_mono; lia).
  destruct (text_roundtrip s (f_width f) (negb (f_varlen f)) Hok ltac:(lia)) as (b' & E & L & D).
  assert (len b' <= f_width f)%nat as Hle'.
  { pose proof (Nat.div_mod (f_width f) 6 ltac:(lia)). rewrite L. destruct (negb (f_varlen f)); lia. }
  exists (VStr s), b'. split; [|split; [reflexivity|]].
  - unfold field_stable. exists (VStr s). unfold decode_field. rewrite Hd, Ht, Ha. cbn [apply_opt_conv].
    split; [reflexivity|]. split; [reflexivity|]. split; [discriminate|]. split.
    { unfold bits_of_field, encode_field. rewrite Hf. cbn [apply_opt_conv bind]. rewrite Hd, E. cbn [bind].
      rewrite firstn_all2 by lia. reflexivity. }
    split; [exact Hle'|]. intros _. exists (VStr s). rewrite D, Hnorm. auto.
  - rewrite L, Hv. destruct ex; cbn [negb]; split; try reflexivity.
    + pose proof (Nat.div_mod (len b) 6 ltac:(lia)). lia.
    + pose proof (Nat.div_mod (f_width f) 6 ltac:(lia)). lia.
Qed.

(* ------------------------------------------------------------------------------------------------ *)
(* the text the model decodes is the text of the layout specification; canonical raw text is re-emitted *)

Lemma chunk_char_checked :
  forallb (fun c => (ascii6_char c =? (if uval c =? 0 then 64 else sixbit_char (uval c)))
                    && negb (sixbit_char (uval c) =? 64) || (uval c =? 0)) (all_bits 6) = true.
Proof. vm_compute. reflexivity. Qed.

Lemma short_pad_decodes_nothing l : (len l < 6)%nat -> pad_ok l = true -> ascii6_loop (chunks 6 l) = [].
Proof.
  intros Hlt Hp. destruct l as [|x r]; [reflexivity|].
  rewrite chunks_step by (try lia; discriminate). cbn [ascii6_loop].
  unfold pad_ok in Hp. rewrite (Nat.div_small _ 6 Hlt) in Hp. cbn [Nat.mul skipn] in Hp.
  rewrite firstn_all2 by lia. rewrite (all_false_repeat (x :: r) Hp).
  pose proof zero_chunks_checked as K. rewrite forallb_forall in K.
  assert (In (len (x :: r)) [1; 2; 3; 4; 5]%nat) as Hin by (cbn in *; lia).
  rewrite (K _ Hin). reflexivity.
Qed.

Lemma pad_ok_skip6 l : (6 <= len l)%nat -> pad_ok l = true -> pad_ok (skipn 6 l) = true.
Proof.
  intros Hge Hp. unfold pad_ok in *.
  assert (len l / 6 = S (len (skipn 6 l) / 6))%nat as Ediv.
  { rewrite skipn_length. replace (len l) with ((len l - 6) + 1 * 6)%nat at 1 by lia. rewrite Nat.div_add by lia. lia. }
  rewrite Ediv in Hp. replace (6 * S (len (skipn 6 l) / 6))%nat with (6 + 6 * (len (skipn 6 l) / 6))%nat in Hp by lia.
  rewrite <- skipn_skipn_ in Hp. exact Hp.
Qed.

Lemma text_model_spec : forall fuel b, (len b / 6 <= fuel)%nat -> pad_ok b = true ->
  ascii6_loop (chunks 6 b) = until_at (sixbit_codes b fuel).
Proof.
  induction fuel as [|fuel IH]; intros b Hf Hp.
  - assert (len b < 6)%nat as Hlt.
    { destruct (Nat.lt_ge_cases (len b) 6) as [|Hge]; [assumption|].
      pose proof (Nat.div_le_mono 6 (len b) 6 ltac:(lia) Hge) as D. rewrite Nat.div_same in D by lia. lia. }
    rewrite short_pad_decodes_nothing by assumption. destruct b; reflexivity.
  - destruct (Nat.lt_ge_cases (len b) 6) as [Hlt|Hge].
    + rewrite short_pad_decodes_nothing by assumption.
      destruct b as [|b0 [|b1 [|b2 [|b3 [|b4 [|b5 r]]]]]]; try reflexivity. cbn in Hlt. lia.
    + destruct b as [|b0 [|b1 [|b2 [|b3 [|b4 [|b5 r]]]]]]; try (cbn in Hge; lia).
      change (b0 :: b1 :: b2 :: b3 :: b4 :: b5 :: r) with ([b0; b1; b2; b3; b4; b5] ++ r) at 1.
      rewrite chunks_app_full by (try lia; reflexivity). cbn [ascii6_loop sixbit_codes until_at].
      pose proof chunk_char_checked as K. rewrite forallb_forall in K.
      specialize (K [b0; b1; b2; b3; b4; b5] (in_all_bits 6 [b0; b1; b2; b3; b4; b5] eq_refl)).
      assert (pad_ok r = true) as Hp' by (apply (pad_ok_skip6 (b0 :: b1 :: b2 :: b3 :: b4 :: b5 :: r)); [cbn; lia|exact Hp]).
      assert (len r / 6 <= fuel)%nat as Hf'.
      { cbn [List.length] in Hf. replace (S (S (S (S (S (S (len r))))))) with (len r + 1 * 6)%nat in Hf by lia.
        rewrite Nat.div_add in Hf by lia. lia. }
      destruct (Z.eqb_spec (uval [b0; b1; b2; b3; b4; b5]) 0) as [E0|N0].
      * rewrite E0 in K. cbn [Z.eqb] in K. rewrite orb_true_r in K.
        assert (ascii6_char [b0; b1; b2; b3; b4; b5] = 64) as ->.
        { clear - E0. destruct b0, b1, b2, b3, b4, b5; cbn in E0; try discriminate. reflexivity. }
        reflexivity.
      * rewrite orb_false_r in K. apply andb_prop in K as [K1 K2]. apply Z.eqb_eq in K1. apply negb_true_iff in K2.
        rewrite K1, K2. f_equal. apply IH; assumption.
Qed.

Lemma decode_text_is_spec_text b : pad_ok b = true -> decode_bin_as_ascii6 b = spec_text b.
Proof.
  intros Hp. unfold decode_bin_as_ascii6, spec_text. rewrite strip_is_trim. f_equal.
  apply text_model_spec; [|exact Hp]. pose proof (Nat.div_le_upper_bound (len b) 6 (len b) ltac:(lia)). lia.
Qed.

Lemma str_to_bin_form s w (ts : bool) : forallb text_char_ok s = true -> (List.length s <= w / 6)%nat ->
  str_to_bin s w ts = Ok (concat (map six_bits (if ts then s ++ repeat 64 (w / 6 - List.length s) else s))).
Proof.
  intros Hs Hl. unfold str_to_bin.
  set (s' := if ts then s ++ repeat 64 (w / 6 - List.length s) else s).
  assert (List.length s' <= w / 6)%nat as Hl'.
  { unfold s'. destruct ts; [rewrite app_length, repeat_length; lia|assumption]. }
  assert (forallb text_char_ok s' = true) as Hs'.
  { unfold s'. destruct ts; [|assumption]. rewrite forallb_app, Hs. apply forallb_repeat. reflexivity. }
  rewrite firstn_all2 by assumption. apply str_to_bin_loop_ok. assumption.
Qed.

(* a bit string is its six-bit codes followed by the sub-character rest *)
Lemma bits_of_codes : forall fuel b, (len b / 6 <= fuel)%nat ->
  b = concat (map (z_to_bits 6) (sixbit_codes b fuel)) ++ skipn (6 * (len b / 6)) b /\
  List.length (sixbit_codes b fuel) = (len b / 6)%nat.
Proof.
  induction fuel as [|fuel IH]; intros b Hf.
  - assert (len b / 6 = 0)%nat as E by lia. rewrite E. cbn [Nat.mul skipn]. destruct b; cbn; auto.
  - destruct (Nat.lt_ge_cases (len b) 6) as [Hlt|Hge].
    + rewrite (Nat.div_small _ 6 Hlt). cbn [Nat.mul skipn].
      destruct b as [|b0 [|b1 [|b2 [|b3 [|b4 [|b5 r]]]]]]; cbn; auto. cbn in Hlt. lia.
    + destruct b as [|b0 [|b1 [|b2 [|b3 [|b4 [|b5 r]]]]]]; try (cbn in Hge; lia).
      assert (len (b0 :: b1 :: b2 :: b3 :: b4 :: b5 :: r) / 6 = S (len r / 6))%nat as Ediv.
      { cbn [List.length]. replace (S (S (S (S (S (S (len r))))))) with (len r + 1 * 6)%nat by lia.
        rewrite Nat.div_add by lia. lia. }
      rewrite Ediv in *. destruct (IH r ltac:(lia)) as (A & B).
      cbn [sixbit_codes map List.concat List.length]. rewrite B. split; [|reflexivity].
      replace (6 * S (len r / 6))%nat with (6 + 6 * (len r / 6))%nat by lia. rewrite <- skipn_skipn_.
      cbn [skipn]. rewrite <- app_assoc, <- A.
      rewrite uval_ubits. change 6%nat with (len [b0; b1; b2; b3; b4; b5]) at 1. rewrite z_to_bits_ubits. reflexivity.
Qed.

Lemma code_bits_checked :
  forallb (fun c => if list_eq_dec Bool.bool_dec (six_bits (if c =? 0 then 64 else sixbit_char c)) (z_to_bits 6 c)
                    then true else false) (zrange 0 63) = true.
Proof. vm_compute. reflexivity. Qed.

Lemma code_bits c : 0 <= c <= 63 -> six_bits (if c =? 0 then 64 else sixbit_char c) = z_to_bits 6 c.
Proof.
  intros H. pose proof code_bits_checked as K. rewrite forallb_forall in K. specialize (K c (in_zrange_ 0 63 c H)).
  destruct (list_eq_dec _ _ _); [assumption|discriminate].
Qed.

Lemma sixbit_codes_range : forall fuel b, Forall (fun c => 0 <= c <= 63) (sixbit_codes b fuel).
Proof.
  induction fuel as [|fuel IH]; intros b; [destruct b; cbn; constructor|].
  destruct b as [|b0 [|b1 [|b2 [|b3 [|b4 [|b5 r]]]]]]; try (cbn; constructor; fail).
  cbn [sixbit_codes]. apply Forall_cons; [|apply IH].
  rewrite uval_ubits. pose proof (ubits_bound [b0; b1; b2; b3; b4; b5]). cbn [List.length] in *.
  change (2 ^ Z.of_nat 6) with 64 in *. lia.
Qed.

(* once a '@' appears only '@' follow: the codes are non-zero codes followed by zeros *)
Lemma all_from_at_split cs : all_from_at cs = true ->
  exists nz k, cs = nz ++ repeat 0 k /\ forallb (fun c => negb (c =? 0)) nz = true.
Proof.
  unfold all_from_at.
  set (go := fix go (cs : list Z) (seen : bool) {struct cs} : bool :=
               match cs with
               | [] => true
               | c :: r => if c =? 0 then go r true else negb seen && go r false
               end).
  assert (forall l, go l true = true -> l = repeat 0 (List.length l)) as Hz.
  { induction l as [|c r IH]; [reflexivity|]. cbn [go]. destruct (Z.eqb_spec c 0) as [->|]; [|discriminate].
    intros H. cbn [List.length repeat]. f_equal. apply IH. exact H. }
  induction cs as [|c r IH]; intros H.
  - exists [], 0%nat. auto.
  - cbn [go] in H. destruct (Z.eqb_spec c 0) as [->|N].
    + exists [], (S (List.length r)). cbn [app repeat]. rewrite <- (Hz r H). auto.
    + cbn [negb andb] in H. destruct (IH H) as (nz & k & -> & Hn). exists (c :: nz), k. split; [reflexivity|].
      cbn [forallb]. rewrite Hn. destruct (Z.eqb_spec c 0); [contradiction|reflexivity].
Qed.

Lemma until_at_nz nz k : forallb (fun c => negb (c =? 0)) nz = true ->
  until_at (nz ++ repeat 0 k) = map sixbit_char nz.
Proof.
  induction nz as [|c r IH]; intros H.
  - destruct k; reflexivity.
  - cbn [forallb] in H. apply andb_prop in H as [Hc Hr]. apply negb_true_iff in Hc.
    cbn [app until_at map]. rewrite Hc, IH by assumption. reflexivity.
Qed.

Lemma ltrim_length l : (List.length (ltrim l) <= List.length l)%nat.
Proof. induction l as [|c r IH]; [cbn; lia|]. cbn [ltrim]. destruct (c =? 32); cbn [List.length]; lia. Qed.
Lemma ltrim_len_eq l : List.length (ltrim l) = List.length l -> ltrim l = l.
Proof.
  destruct l as [|c r]; [reflexivity|]. cbn [ltrim]. destruct (c =? 32); [|reflexivity].
  pose proof (ltrim_length r). cbn [List.length]. lia.
Qed.
Lemma trim_len_eq t : List.length (trim t) = List.length t -> trim t = t.
Proof.
  unfold trim. rewrite rev_length. intros H.
  pose proof (ltrim_length (rev (ltrim t))) as A. rewrite rev_length in A. pose proof (ltrim_length t) as B.
  assert (ltrim t = t) as E1 by (apply ltrim_len_eq; lia). rewrite E1 in *.
  rewrite (ltrim_len_eq (rev t)) by (rewrite rev_length; lia). apply rev_involutive.
Qed.

(* canonical raw text (Spec/RoundTripSpec.v raw_text_canonical, with the variable-length / full-width side condition)
   is re-emitted bit for bit, provided there are no sub-character bits *)
Lemma text_fix ex f b : field_impl KT ex f = true -> b <> [] -> (len b <= f_width f)%nat ->
  (len b mod 6 = 0)%nat -> raw_text_canonical b = true ->
  (if ex then forallb (fun c => negb (c =? 0)) (sixbit_codes b (len b)) = true else len b = f_width f) ->
  bits_of_field f (VStr (decode_bin_as_ascii6 b)) = Ok b.
Proof.
  cbn [field_impl]. intros H Hne Hle Hm6 Hcan Hside.
  apply andb_prop in H as [H Hv]. apply andb_prop in H as [Hd Hpl].
  apply is_dtype_inv in Hd. apply plain_inv in Hpl as (Hf & Ht & Ha). apply eqb_prop in Hv.
  unfold raw_text_canonical in Hcan. apply andb_prop in Hcan as [Hcan Hrest]. apply andb_prop in Hcan as [Hall Htrim].
  apply Nat.eqb_eq in Htrim.
  set (cs := sixbit_codes b (len b)) in *.
  assert (len b / 6 <= len b)%nat as Hfuel by (pose proof (Nat.div_le_upper_bound (len b) 6 (len b) ltac:(lia)); lia).
  destruct (bits_of_codes (len b) b Hfuel) as (Eb & Lcs). fold cs in Eb, Lcs.
  assert (skipn (6 * (len b / 6)) b = []) as Erest.
  { apply length_zero_iff_nil. rewrite skipn_length. pose proof (Nat.div_mod (len b) 6 ltac:(lia)). lia. }
  rewrite Erest, app_nil_r in Eb.
  assert (pad_ok b = true) as Hp by (unfold pad_ok; rewrite Erest; reflexivity).
  destruct (all_from_at_split cs Hall) as (nz & k & Ecs & Hnz).
  assert (decode_bin_as_ascii6 b = map sixbit_char nz) as Es.
  { rewrite decode_text_is_spec_text by assumption. unfold spec_text. fold cs. fold cs in Htrim.
    rewrite (trim_len_eq _ Htrim), Ecs. apply until_at_nz. exact Hnz. }
  destruct (decoded_text b Hp) as (Hl & Hok & _). rewrite Es in *.
  assert (len b / 6 <= f_width f / 6)%nat as Hdiv by (apply Nat.div_le_mono; lia).
  unfold bits_of_field, encode_field. rewrite Hf. cbn [apply_opt_conv bind]. rewrite Hd.
  rewrite (str_to_bin_form (map sixbit_char nz) (f_width f) (negb (f_varlen f)) Hok ltac:(lia)). cbn [bind].
  pose proof (sixbit_codes_range (len b) b) as Hrange. fold cs in Hrange. rewrite Ecs in Hrange.
  apply Forall_app in Hrange as [Rnz _].
  assert (concat (map six_bits (map sixbit_char nz)) = concat (map (z_to_bits 6) nz)) as Enz.
  { clear - Rnz Hnz. induction nz as [|c r IH]; [reflexivity|].
    cbn [forallb] in Hnz. apply andb_prop in Hnz as [Hc Hr]. apply negb_true_iff in Hc.
    inversion Rnz as [|? ? Rc Rr]; subst. cbn [map List.concat]. rewrite IH by assumption. f_equal.
    pose proof (code_bits c Rc) as E. rewrite Hc in E. exact E. }
  assert (List.length cs = List.length nz + k)%nat as Lk by (rewrite Ecs, app_length, repeat_length; reflexivity).
  assert (forall m, concat (map six_bits (repeat 64 m)) = concat (map (z_to_bits 6) (repeat 0 m))) as Ez.
  { induction m as [|m IH]; [reflexivity|]. cbn [repeat map List.concat]. rewrite IH. reflexivity. }
  rewrite Hv. destruct ex; cbn [negb].
  - (* exactly the characters: no '@' at all *)
    fold cs in Hside. rewrite Ecs, forallb_app in Hside. apply andb_prop in Hside as [_ Hk].
    assert (k = 0%nat) as -> by (destruct k; [reflexivity|discriminate]).
    cbn [repeat] in Ecs. rewrite app_nil_r in Ecs. rewrite Enz, <- Ecs, <- Eb. rewrite firstn_all2 by lia. reflexivity.
  - (* padded with '@' to the full width *)
    rewrite map_length. rewrite map_app, concat_app, Enz, Ez.
    assert (f_width f / 6 - List.length nz = k)%nat as -> by (rewrite <- Hside, <- Lcs; lia).
    rewrite <- concat_app, <- map_app, <- Ecs, <- Eb. rewrite firstn_all2 by lia. reflexivity.
Qed.
