(* Payload codec, decode direction: what C01 (Proofs/CodecDecode.v) and C11 (Proofs/CodecPrefix.v) share.

   1. from_bitarray_char      the cur/end loop of Payload.from_bitarray, characterised field by field (unbounded)
   2. converters through [resolve]; the raw value of a slice by int_read_unsigned / int_read_signed (BitsLemmas.v)
   3. soundness of the generic table checker [field_errors] / [table_errors] of Spec/LayoutRel.v
   4. dispatch_matches_spec   MSG_CLASS + the regenerated decision trees against spec_variant; prefix stability

   Nothing here depends on the sign flags, scale constants or enumerations of the field tables: those are C01's. *)
From Coq Require Import ZArith List Bool String Lia ZifyBool ZifyNat.
Require Import Prim.Exn Prim.Bits Prim.Dict Gen.GenEnums Model.FieldTypes Gen.GenTables Gen.GenDispatch Gen.GenConv
               Model.Codec Spec.Layout Spec.LayoutRel Proofs.BitsLemmas.
Import ListNotations.
Open Scope list_scope.
Open Scope Z_scope.
Ltac Zify.zify_post_hook ::= Z.to_euclidean_division_equations.

Local Notation length := List.length (only parsing).

Ltac split_andb :=
  repeat match goal with
         | H : _ && _ = true |- _ => apply andb_true_iff in H; destruct H
         end.

(* ------------------------------------------------------------------------------------------------ *)
(* sequencing in the exception monad                                                                  *)

Fixpoint mseq {A} (l : list (M A)) : M (list A) :=
  match l with
  | [] => Ok []
  | m :: r => bind m (fun a => bind (mseq r) (fun rs => Ok (a :: rs)))
  end.

Lemma mseq_cons_ok : forall {A} (m : M A) r a rs, m = Ok a -> mseq r = Ok rs -> mseq (m :: r) = Ok (a :: rs).
Proof. intros A m r a rs -> H. cbn [mseq bind]. rewrite H. reflexivity. Qed.

Lemma mseq_cons_inv : forall {A} (m : M A) r vs, mseq (m :: r) = Ok vs ->
  exists a rs, m = Ok a /\ mseq r = Ok rs /\ vs = a :: rs.
Proof.
  intros A m r vs H. cbn [mseq] in H. destruct m as [a|e]; [|discriminate]. cbn [bind] in H.
  destruct (mseq r) as [rs|e]; [|discriminate]. cbn [bind] in H. injection H as <-. eauto.
Qed.

Lemma mseq_length : forall {A} (l : list (M A)) vs, mseq l = Ok vs -> length vs = length l.
Proof.
  induction l as [|m r IH]; intros vs H.
  - injection H as <-. reflexivity.
  - apply mseq_cons_inv in H as (a & rs & _ & Hr & ->). cbn [List.length]. f_equal. auto.
Qed.

Lemma mseq_nth : forall {A} (l : list (M A)) vs i m, mseq l = Ok vs -> nth_error l i = Some m ->
  exists a, m = Ok a /\ nth_error vs i = Some a.
Proof.
  induction l as [|m0 r IH]; intros vs i m H Hn.
  - destruct i; discriminate.
  - apply mseq_cons_inv in H as (a & rs & Hm & Hr & ->). destruct i as [|i].
    + injection Hn as <-. eauto.
    + cbn [nth_error] in *. eauto.
Qed.

(* ------------------------------------------------------------------------------------------------ *)
(* 1. the loop of Payload.from_bitarray                                                               *)

(* the value the loop gives to a field that starts at bit [off] *)
Definition field_at (f : field) (b : bits) (off : nat) : M value :=
  if (length b <=? off)%nat then Ok VNone
  else decode_field f (slice b off (Nat.min (length b) (off + f_width f))).

Fixpoint field_vals (fs : list field) (b : bits) (off : nat) : list (M value) :=
  match fs with
  | [] => []
  | f :: r => field_at f b off :: field_vals r b (off + f_width f)
  end.

Lemma from_bitarray_loop_char : forall fs b off,
  from_bitarray_loop fs b (Nat.min (length b) off) (Nat.min (length b) off) = mseq (field_vals fs b off).
Proof.
  induction fs as [|f r IH]; intros b off; [reflexivity|].
  cbn [from_bitarray_loop field_vals mseq]. unfold field_at.
  destruct (Nat.leb_spec (length b) off) as [Hle|Hgt].
  - replace (length b <=? Nat.min (length b) off)%nat with true by (symmetry; apply Nat.leb_le; lia).
    replace (Nat.min (length b) off) with (Nat.min (length b) (off + f_width f)) by lia.
    rewrite IH. reflexivity.
  - replace (length b <=? Nat.min (length b) off)%nat with false by (symmetry; apply Nat.leb_gt; lia).
    replace (Nat.min (length b) off) with off by lia.
    rewrite IH. reflexivity.
Qed.

(* DESIGN 7/C01 from_bitarray_char: field i of the result is None if off_i >= |bits|, otherwise
   decode_field f_i (bits[off_i : min(|bits|, off_i + w_i)]), off_i = the sum of the preceding widths *)
Theorem from_bitarray_char : forall fs b, from_bitarray_loop fs b 0 0 = mseq (field_vals fs b 0).
Proof. intros. rewrite <- from_bitarray_loop_char, Nat.min_0_r. reflexivity. Qed.

Definition widths_before (fs : list field) (i : nat) : nat :=
  fold_right (fun f a => f_width f + a)%nat 0%nat (firstn i fs).

Lemma field_vals_nth : forall fs b off i f, nth_error fs i = Some f ->
  nth_error (field_vals fs b off) i = Some (field_at f b (off + widths_before fs i)).
Proof.
  induction fs as [|f0 r IH]; intros b off i f H; [destruct i; discriminate|].
  destruct i as [|i].
  - injection H as <-. unfold widths_before. cbn [firstn fold_right field_vals nth_error]. do 2 f_equal. lia.
  - cbn [nth_error field_vals] in *. rewrite (IH b _ i f H). unfold widths_before. cbn [firstn fold_right].
    do 2 f_equal. lia.
Qed.

Corollary from_bitarray_char_nth : forall fs b kws i f, from_bitarray_loop fs b 0 0 = Ok kws ->
  nth_error fs i = Some f ->
  let off := widths_before fs i in
  exists kw, nth_error kws i = Some kw /\
    if (length b <=? off)%nat then kw = VNone
    else decode_field f (slice b off (Nat.min (length b) (off + f_width f))) = Ok kw.
Proof.
  intros fs b kws i f H Hn off. rewrite from_bitarray_char in H.
  destruct (mseq_nth _ _ i _ H (field_vals_nth fs b 0 i f Hn)) as (kw & Hkw & Hnth).
  exists kw. split; [exact Hnth|]. unfold field_at in Hkw. cbn [Nat.add] in Hkw. fold off in Hkw.
  destruct (length b <=? off)%nat; [congruence|exact Hkw].
Qed.

(* field by field with the attrs-level converter of __init__ *)
Definition dec1 (f : field) (b : bits) (off : nat) : M value :=
  bind (field_at f b off) (fun kw => apply_opt_conv (f_attrs_conv f) kw).

Fixpoint dec_all (fs : list field) (b : bits) (off : nat) : list (M value) :=
  match fs with
  | [] => []
  | f :: r => dec1 f b off :: dec_all r b (off + f_width f)
  end.

Lemma dec_all_init : forall fs b off vals, mseq (dec_all fs b off) = Ok vals ->
  exists kws, mseq (field_vals fs b off) = Ok kws /\ init_attrs fs kws = Ok vals.
Proof.
  induction fs as [|f r IH]; intros b off vals H.
  - injection H as <-. exists []. split; reflexivity.
  - cbn [dec_all] in H. apply mseq_cons_inv in H as (a & rs & Ha & Hr & ->).
    destruct (IH _ _ _ Hr) as (kws & Hk & Hi). unfold dec1 in Ha.
    destruct (field_at f b off) as [kw|e] eqn:Ef; [|discriminate]. cbn [bind] in Ha.
    exists (kw :: kws). split.
    + cbn [field_vals]. apply mseq_cons_ok; assumption.
    + cbn [init_attrs bind]. rewrite Ha. cbn [bind]. rewrite Hi. reflexivity.
Qed.

Lemma from_bitarray_of_dec_all : forall c b vals, mseq (dec_all (fields_of c) b 0) = Ok vals ->
  from_bitarray c b = Ok vals.
Proof.
  intros c b vals H. apply dec_all_init in H as (kws & Hk & Hi). unfold from_bitarray.
  rewrite from_bitarray_char, Hk. cbn [bind]. exact Hi.
Qed.

(* ------------------------------------------------------------------------------------------------ *)
(* converters through [resolve]                                                                       *)

Lemma apply_resolve : forall c v, apply_opt_conv c v = apply_rconv (resolve c) v.
Proof.
  intros [[n|e|e]|] v; cbn [apply_opt_conv apply_conv resolve apply_rconv]; try reflexivity.
  destruct (assoc_s n conv_table); reflexivity.
Qed.

Definition raw_value (f : field) (bs : bits) : value :=
  match f_dtype f with
  | DInt | DBool | DFloat =>
    let shift := Z.of_nat (pad_len (length bs)) in
    let v := Z.shiftr (if f_signed f then from_bytes_s bs else from_bytes_u bs) shift in
    match f_dtype f with
    | DFloat => VFloat v 1
    | DBool => VBool (negb (v =? 0))
    | _ => VInt v
    end
  | DStr => VStr (decode_bin_as_ascii6 bs)
  | DBytes => VBytes (bits_to_bytes bs)
  end.

Lemma decode_field_raw : forall f bs, decode_field f bs = apply_rconv (resolve (f_to f)) (raw_value f bs).
Proof. intros. unfold decode_field. rewrite apply_resolve. reflexivity. Qed.

Definition int_of (f : field) (bs : bits) : Z := if f_signed f then sval_ bs else uval bs.

Lemma raw_value_int : forall f bs,
  raw_value f bs =
  match f_dtype f with
  | DInt => VInt (int_of f bs)
  | DBool => VBool (negb (int_of f bs =? 0))
  | DFloat => VFloat (int_of f bs) 1
  | DStr => VStr (decode_bin_as_ascii6 bs)
  | DBytes => VBytes (bits_to_bytes bs)
  end.
Proof.
  intros. unfold raw_value, int_of.
  destruct (f_dtype f); destruct (f_signed f); rewrite ?int_read_signed, ?int_read_unsigned; reflexivity.
Qed.

Lemma in_zrange : forall lo hi z, lo <= z <= hi -> In z (zrange lo hi).
Proof.
  intros lo hi z H. unfold zrange. apply in_map_iff. exists (Z.to_nat (z - lo)). split; [lia|].
  apply in_seq. lia.
Qed.

Lemma is_none_eq : forall r, is_none r = true -> r = RNone.
Proof. destruct r; cbn; congruence. Qed.

Lemma pow2_le_256 : forall n : nat, (n <= 8)%nat -> 2 ^ Z.of_nat n <= 256.
Proof. intros. change 256 with (2 ^ 8). apply Z.pow_le_mono_r; lia. Qed.

(* ------------------------------------------------------------------------------------------------ *)
(* 3. the table checker of Spec/LayoutRel.v                                                          *)

Lemma field_errors_cons : forall ok what f fr s sr off, field_errors ok what (f :: fr) (s :: sr) off = [] ->
  f_name f = s_name s /\ f_width f = s_width s /\ s_off s = off /\ (0 < f_width f)%nat /\
  ok s f = true /\ field_errors ok what fr sr (off + f_width f) = [].
Proof.
  intros ok what f fr s sr off H. cbn [field_errors] in H.
  destruct (String.eqb (f_name f) (s_name s)) eqn:E1; [|discriminate].
  destruct (Nat.eqb (f_width f) (s_width s)) eqn:E2; [|discriminate].
  destruct (Nat.eqb (s_off s) off) eqn:E3; [|discriminate].
  destruct (Nat.ltb 0 (f_width f)) eqn:E4; [|discriminate].
  destruct (ok s f) eqn:E5; [|discriminate].
  cbn [List.app] in H.
  apply String.eqb_eq in E1. apply Nat.eqb_eq in E2, E3. apply Nat.ltb_lt in E4. auto 10.
Qed.

Lemma field_errors_length : forall ok what fs sfs off, field_errors ok what fs sfs off = [] -> length fs = length sfs.
Proof.
  induction fs as [|f fr IH]; intros [|s sr] off H; try reflexivity; try discriminate.
  apply field_errors_cons in H as (_ & _ & _ & _ & _ & H). cbn [List.length]. f_equal. eauto.
Qed.

Lemma field_errors_names : forall ok what fs sfs off, field_errors ok what fs sfs off = [] ->
  map f_name fs = map s_name sfs.
Proof.
  induction fs as [|f fr IH]; intros [|s sr] off H; try reflexivity; try discriminate.
  apply field_errors_cons in H as (Hn & _ & _ & _ & _ & H). cbn [map]. f_equal; eauto.
Qed.

Lemma field_errors_nth : forall ok what fs sfs off i s, field_errors ok what fs sfs off = [] ->
  nth_error sfs i = Some s ->
  exists f, nth_error fs i = Some f /\ f_width f = s_width s /\ (0 < f_width f)%nat /\ ok s f = true /\
            forall b, nth_error (dec_all fs b off) i = Some (dec1 f b (s_off s)).
Proof.
  induction fs as [|f fr IH]; intros [|s0 sr] off i s H Hn; try discriminate; try (destruct i; discriminate).
  apply field_errors_cons in H as (_ & Hw & Ho & Hp & Hs & H). destruct i as [|i].
  - injection Hn as <-. exists f. subst off. repeat split; auto.
  - cbn [nth_error] in Hn. destruct (IH _ _ _ _ H Hn) as (f' & Hf' & ? & ? & ? & Hd).
    exists f'. repeat split; auto.
Qed.

Lemma table_errors_inv : forall ok what c v, table_errors ok what c v = [] ->
  class_name c = variant_class v /\ total_width (spec_layout v) = nominal v /\
  field_errors ok what (fields_of c) (spec_layout v) 0 = [].
Proof.
  intros ok what c v H. unfold table_errors in H. apply map_eq_nil in H.
  destruct (String.eqb (class_name c) (variant_class v)) eqn:E1; [|discriminate].
  destruct (Nat.eqb (total_width (spec_layout v)) (nominal v)) eqn:E2; [|discriminate].
  cbn [List.app] in H. apply String.eqb_eq in E1. apply Nat.eqb_eq in E2. auto.
Qed.

Lemma total_width_cons : forall s sr, total_width (s :: sr) = (s_width s + total_width sr)%nat.
Proof. reflexivity. Qed.

Lemma dec1_inside : forall f b off, (0 < f_width f)%nat -> (off + f_width f <= length b)%nat ->
  dec1 f b off = bind (decode_field f (sub b off (f_width f))) (fun kw => apply_opt_conv (f_attrs_conv f) kw).
Proof.
  intros f b off Hp Hl. unfold dec1, field_at.
  replace (length b <=? off)%nat with false by (symmetry; apply Nat.leb_gt; lia).
  rewrite slice_sub. replace (Nat.min (length b) (off + f_width f) - off)%nat with (f_width f) by lia. reflexivity.
Qed.

Lemma nominal_covers_disc : forall v, (6 <= nominal v)%nat /\ (disc_end v <= nominal v)%nat.
Proof. destruct v; split; apply Nat.leb_le; vm_compute; reflexivity. Qed.

(* ------------------------------------------------------------------------------------------------ *)
(* 5. variant dispatch                                                                                 *)

Lemma kb_get_sound : forall b kb i x, Forall (fun p => bit_at b (fst p) = snd p) kb -> kb_get kb i = Some x ->
  bit_at b i = x.
Proof.
  induction kb as [|[j y] r IH]; intros i x HF H; [discriminate|].
  inversion HF as [|? ? Hj Hr]; subst. cbn [kb_get] in H. destruct (Nat.eqb i j) eqn:E.
  - apply Nat.eqb_eq in E. injection H as <-. subst. exact Hj.
  - eauto.
Qed.

Lemma kb_get_lt : forall kb d i x, forallb (fun p => Nat.ltb (fst p) d) kb = true -> kb_get kb i = Some x -> (i < d)%nat.
Proof.
  induction kb as [|[j y] r IH]; intros d i x HF H; [discriminate|].
  cbn [forallb fst] in HF. apply andb_true_iff in HF as [Hj Hr]. cbn [kb_get] in H. destruct (Nat.eqb i j) eqn:E.
  - apply Nat.eqb_eq in E. apply Nat.ltb_lt in Hj. lia.
  - eauto.
Qed.

Lemma kb_range_sound : forall b kb d w lo l,
  Forall (fun p => bit_at b (fst p) = snd p) kb -> forallb (fun p => Nat.ltb (fst p) d) kb = true ->
  kb_range kb lo w = Some l ->
  l = map (fun i => nth i b false) (seq lo w) /\ ((0 < w)%nat -> (lo + w <= d)%nat).
Proof.
  induction w as [|w IH]; intros lo l HF Hd H.
  - injection H as <-. split; [reflexivity|lia].
  - cbn [kb_range] in H. destruct (kb_get kb lo) as [x|] eqn:Ex; [|discriminate].
    destruct (kb_range kb (S lo) w) as [r|] eqn:Er; [|discriminate]. injection H as <-.
    destruct (IH _ _ HF Hd Er) as [-> Hb]. pose proof (kb_get_lt _ _ _ _ Hd Ex).
    split.
    + cbn [seq map]. f_equal. symmetry. exact (kb_get_sound _ _ _ _ HF Ex).
    + intros _. destruct w; lia.
Qed.

Lemma range_val_sound : forall b kb d lo hi z,
  Forall (fun p => bit_at b (fst p) = snd p) kb -> forallb (fun p => Nat.ltb (fst p) d) kb = true ->
  (d <= length b)%nat -> range_val kb lo hi = Some z -> get_int b lo hi false = z.
Proof.
  intros b kb d lo hi z HF Hd Hlen H. unfold range_val in H.
  destruct (Nat.ltb lo hi) eqn:E; [|discriminate]. apply Nat.ltb_lt in E.
  destruct (kb_range kb lo (hi - lo)) as [l|] eqn:Er; [|discriminate]. injection H as <-.
  destruct (kb_range_sound _ _ _ _ _ _ HF Hd Er) as [-> Hb].
  rewrite get_int_uval by lia. rewrite sub_nth by lia. reflexivity.
Qed.

Lemma tree_sel_sound : forall b kb d t r,
  Forall (fun p => bit_at b (fst p) = snd p) kb -> forallb (fun p => Nat.ltb (fst p) d) kb = true ->
  (d <= length b)%nat -> tree_sel t kb = Some r -> run_dtree t b = r.
Proof.
  intros b kb d t r HF Hd Hlen. revert r.
  induction t as [c| |lo hi t1 IH1 t2 IH2|lo hi k t1 IH1 t2 IH2]; intros r H; cbn [tree_sel run_dtree] in *.
  - congruence.
  - congruence.
  - destruct (range_val kb lo hi) as [z|] eqn:Ez; [|discriminate].
    rewrite (range_val_sound _ _ _ _ _ _ HF Hd Hlen Ez). destruct (z =? 0); auto.
  - destruct (range_val kb lo hi) as [z|] eqn:Ez; [|discriminate].
    rewrite (range_val_sound _ _ _ _ _ _ HF Hd Hlen Ez). destruct (z =? k); auto.
Qed.

(* re-checked against the regenerated MSG_CLASS table and decision trees on every run, one lemma per variant *)
Ltac dispatch_check := vm_compute; reflexivity.
Lemma dispatch_table_V1 : dispatch_sel V1 = Some (cls_of V1). Proof. dispatch_check. Qed.
Lemma dispatch_table_V2 : dispatch_sel V2 = Some (cls_of V2). Proof. dispatch_check. Qed.
Lemma dispatch_table_V3 : dispatch_sel V3 = Some (cls_of V3). Proof. dispatch_check. Qed.
Lemma dispatch_table_V4 : dispatch_sel V4 = Some (cls_of V4). Proof. dispatch_check. Qed.
Lemma dispatch_table_V5 : dispatch_sel V5 = Some (cls_of V5). Proof. dispatch_check. Qed.
Lemma dispatch_table_V6 : dispatch_sel V6 = Some (cls_of V6). Proof. dispatch_check. Qed.
Lemma dispatch_table_V7 : dispatch_sel V7 = Some (cls_of V7). Proof. dispatch_check. Qed.
Lemma dispatch_table_V8 : dispatch_sel V8 = Some (cls_of V8). Proof. dispatch_check. Qed.
Lemma dispatch_table_V9 : dispatch_sel V9 = Some (cls_of V9). Proof. dispatch_check. Qed.
Lemma dispatch_table_V10 : dispatch_sel V10 = Some (cls_of V10). Proof. dispatch_check. Qed.
Lemma dispatch_table_V11 : dispatch_sel V11 = Some (cls_of V11). Proof. dispatch_check. Qed.
Lemma dispatch_table_V12 : dispatch_sel V12 = Some (cls_of V12). Proof. dispatch_check. Qed.
Lemma dispatch_table_V13 : dispatch_sel V13 = Some (cls_of V13). Proof. dispatch_check. Qed.
Lemma dispatch_table_V14 : dispatch_sel V14 = Some (cls_of V14). Proof. dispatch_check. Qed.
Lemma dispatch_table_V15 : dispatch_sel V15 = Some (cls_of V15). Proof. dispatch_check. Qed.
Lemma dispatch_table_V16 : dispatch_sel V16 = Some (cls_of V16). Proof. dispatch_check. Qed.
Lemma dispatch_table_V17 : dispatch_sel V17 = Some (cls_of V17). Proof. dispatch_check. Qed.
Lemma dispatch_table_V18 : dispatch_sel V18 = Some (cls_of V18). Proof. dispatch_check. Qed.
Lemma dispatch_table_V19 : dispatch_sel V19 = Some (cls_of V19). Proof. dispatch_check. Qed.
Lemma dispatch_table_V20 : dispatch_sel V20 = Some (cls_of V20). Proof. dispatch_check. Qed.
Lemma dispatch_table_V21 : dispatch_sel V21 = Some (cls_of V21). Proof. dispatch_check. Qed.
Lemma dispatch_table_V22Addressed : dispatch_sel V22Addressed = Some (cls_of V22Addressed). Proof. dispatch_check. Qed.
Lemma dispatch_table_V22Broadcast : dispatch_sel V22Broadcast = Some (cls_of V22Broadcast). Proof. dispatch_check. Qed.
Lemma dispatch_table_V23 : dispatch_sel V23 = Some (cls_of V23). Proof. dispatch_check. Qed.
Lemma dispatch_table_V24A : dispatch_sel V24A = Some (cls_of V24A). Proof. dispatch_check. Qed.
Lemma dispatch_table_V24B : dispatch_sel V24B = Some (cls_of V24B). Proof. dispatch_check. Qed.
Lemma dispatch_table_V25AddressedStructured :
  dispatch_sel V25AddressedStructured = Some (cls_of V25AddressedStructured). Proof. dispatch_check. Qed.
Lemma dispatch_table_V25BroadcastStructured :
  dispatch_sel V25BroadcastStructured = Some (cls_of V25BroadcastStructured). Proof. dispatch_check. Qed.
Lemma dispatch_table_V25AddressedUnstructured :
  dispatch_sel V25AddressedUnstructured = Some (cls_of V25AddressedUnstructured). Proof. dispatch_check. Qed.
Lemma dispatch_table_V25BroadcastUnstructured :
  dispatch_sel V25BroadcastUnstructured = Some (cls_of V25BroadcastUnstructured). Proof. dispatch_check. Qed.
Lemma dispatch_table_V26AddressedStructured :
  dispatch_sel V26AddressedStructured = Some (cls_of V26AddressedStructured). Proof. dispatch_check. Qed.
Lemma dispatch_table_V26BroadcastStructured :
  dispatch_sel V26BroadcastStructured = Some (cls_of V26BroadcastStructured). Proof. dispatch_check. Qed.
Lemma dispatch_table_V26AddressedUnstructured :
  dispatch_sel V26AddressedUnstructured = Some (cls_of V26AddressedUnstructured). Proof. dispatch_check. Qed.
Lemma dispatch_table_V26BroadcastUnstructured :
  dispatch_sel V26BroadcastUnstructured = Some (cls_of V26BroadcastUnstructured). Proof. dispatch_check. Qed.
Lemma dispatch_table_V27 : dispatch_sel V27 = Some (cls_of V27). Proof. dispatch_check. Qed.

Lemma dispatch_tables_match_spec : forall v, dispatch_sel v = Some (cls_of v).
Proof.
  destruct v;
    first [ exact dispatch_table_V1 | exact dispatch_table_V2 | exact dispatch_table_V3 | exact dispatch_table_V4
          | exact dispatch_table_V5 | exact dispatch_table_V6 | exact dispatch_table_V7 | exact dispatch_table_V8
          | exact dispatch_table_V9 | exact dispatch_table_V10 | exact dispatch_table_V11 | exact dispatch_table_V12
          | exact dispatch_table_V13 | exact dispatch_table_V14 | exact dispatch_table_V15 | exact dispatch_table_V16
          | exact dispatch_table_V17 | exact dispatch_table_V18 | exact dispatch_table_V19 | exact dispatch_table_V20
          | exact dispatch_table_V21 | exact dispatch_table_V22Addressed | exact dispatch_table_V22Broadcast
          | exact dispatch_table_V23 | exact dispatch_table_V24A | exact dispatch_table_V24B
          | exact dispatch_table_V25AddressedStructured | exact dispatch_table_V25BroadcastStructured
          | exact dispatch_table_V25AddressedUnstructured | exact dispatch_table_V25BroadcastUnstructured
          | exact dispatch_table_V26AddressedStructured | exact dispatch_table_V26BroadcastStructured
          | exact dispatch_table_V26AddressedUnstructured | exact dispatch_table_V26BroadcastUnstructured
          | exact dispatch_table_V27 ].
Qed.

(* what spec_variant says about the bits, in the form the checker uses *)
Lemma two_bits : forall b, (40 <= length b)%nat ->
  uval (sub b 38 2) = 2 * b2z (bit_at b 38) + b2z (bit_at b 39).
Proof.
  intros b H. rewrite sub_nth by lia. cbn [seq map]. unfold bit_at.
  destruct (nth 38 b false), (nth 39 b false); reflexivity.
Qed.

Lemma spec_variant_selects : forall b v, spec_variant b = Some v -> (disc_end v <= length b)%nat -> selects b v.
Proof.
  intros b v H Hlen. unfold selects. unfold spec_variant in H.
  set (t := uval (sub b 0 6)) in *.
  repeat match type of H with
         | (if ?c then _ else _) = _ =>
           let E := fresh "E" in
           destruct c eqn:E;
           [ apply Z.eqb_eq in E; clear - H E Hlen | clear E ]
         end; try discriminate.
  all: try (injection H as <-; split; [exact E|constructor]).
  - (* 22 *) destruct (bit_at b 139) eqn:Eb; injection H as <-; (split; [exact E|]); repeat constructor; exact Eb.
  - (* 24 *) destruct (uval (sub b 38 2)) as [|[p|p|]|p] eqn:Eu; try discriminate; injection H as <-;
      cbn [disc_end] in Hlen; rewrite two_bits in Eu by lia;
      (split; [exact E|]); destruct (bit_at b 38) eqn:Ea, (bit_at b 39) eqn:Es; cbn [b2z] in Eu; try discriminate;
      repeat constructor; assumption.
  - (* 25 *) destruct (bit_at b 38) eqn:Ea, (bit_at b 39) eqn:Es; injection H as <-; (split; [exact E|]);
      repeat constructor; assumption.
  - (* 26 *) destruct (bit_at b 38) eqn:Ea, (bit_at b 39) eqn:Es; injection H as <-; (split; [exact E|]);
      repeat constructor; assumption.
Qed.

Lemma known_bits_before_disc_end : forall v, forallb (fun p => Nat.ltb (fst p) (disc_end v)) (known_bits v) = true.
Proof. destruct v; reflexivity. Qed.

(* DESIGN 7/C11 dispatch_prefix_stable: the discriminator bits are inside every prefix that C11 quantifies over *)
Lemma selects_prefix : forall b v n, selects b v -> (Nat.max 6 (disc_end v) <= n)%nat -> selects (firstn n b) v.
Proof.
  intros b v n [Ht Hk] Hn. split.
  - rewrite sub_firstn by lia. exact Ht.
  - pose proof (known_bits_before_disc_end v) as Hd. revert Hk Hd.
    induction (known_bits v) as [|[i x] r IH]; intros Hk Hd; constructor.
    + inversion Hk; subst. cbn [forallb fst] in Hd. apply andb_true_iff in Hd as [Hi _]. apply Nat.ltb_lt in Hi.
      cbn [fst snd] in *. unfold bit_at in *. rewrite nth_firstn_lt by lia. assumption.
    + inversion Hk; subst. cbn [forallb] in Hd. apply andb_true_iff in Hd as [_ Hr]. auto.
Qed.

Lemma dispatch_of_selects : forall b v, selects b v -> (6 <= length b)%nat -> (disc_end v <= length b)%nat ->
  exists dt ct, assoc_z (get_int b 0 6 false) msg_class_table = Some (dt, ct) /\ run_dtree dt b = Ok (cls_of v).
Proof.
  intros b v [Ht Hk] H6 Hd. rewrite get_int_uval by lia. change (6 - 0)%nat with 6%nat. rewrite Ht.
  pose proof (dispatch_tables_match_spec v) as Hs. unfold dispatch_sel in Hs.
  destruct (forallb (fun p => Nat.ltb (fst p) (disc_end v)) (known_bits v)) eqn:Ekb; [|discriminate].
  destruct (assoc_z (type_id v) msg_class_table) as [[dt ct]|]; [|discriminate].
  destruct (tree_sel dt (known_bits v)) as [[c|e]|] eqn:Et; try discriminate. injection Hs as ->.
  exists dt, ct. split; [reflexivity|]. exact (tree_sel_sound _ _ _ _ _ Hk Ekb Hd Et).
Qed.

(* DESIGN 7/C01 dispatch_matches_spec: for every bit list that contains the discriminator, the class MSG_CLASS and the
   dispatcher select is the class of the variant spec_variant selects *)
Theorem dispatch_matches_spec : forall b v, spec_variant b = Some v -> (6 <= length b)%nat ->
  (disc_end v <= length b)%nat ->
  exists dt ct, assoc_z (get_int b 0 6 false) msg_class_table = Some (dt, ct) /\ run_dtree dt b = Ok (cls_of v).
Proof. intros b v H H6 Hd. apply dispatch_of_selects; auto. apply spec_variant_selects; assumption. Qed.

Lemma decode_bits_of_selects : forall b v vals, selects b v -> (6 <= length b)%nat -> (disc_end v <= length b)%nat ->
  from_bitarray (cls_of v) b = Ok vals -> decode_bits b = Ok (cls_of v, vals).
Proof.
  intros b v vals Hs H6 Hd Hf. destruct (dispatch_of_selects b v Hs H6 Hd) as (dt & ct & Ha & Hr).
  unfold decode_bits, decode_bits_as. rewrite Ha, Hr. cbn [bind]. rewrite Hf. reflexivity.
Qed.

(* ------------------------------------------------------------------------------------------------ *)
(* real payloads for the non-vacuity examples of Props/C01.v and Props/C11.v                          *)

Definition payload_codes (s : string) : list Z :=
  map (fun c => Z.of_nat (Ascii.nat_of_ascii c)) (list_ascii_of_string s).

(* !AIVDM,1,1,,B,15M67FC000G?ufbE`FepT@3n00Sa,0*5C  (a class A position report west of Greenwich) *)
Definition sample_type1 : list Z := payload_codes "15M67FC000G?ufbE`FepT@3n00Sa".
(* !AIVDM,2,1,1,A,55?MbV02;H;s<HtKR20EHE:0@T4@Dn2222222216L961O5Gf0NSQEp6ClRp8,0*1C
   !AIVDM,2,2,1,A,88888888880,2*25                 (static and voyage data, three text fields) *)
Definition sample_type5 : list Z :=
  payload_codes "55?MbV02;H;s<HtKR20EHE:0@T4@Dn2222222216L961O5Gf0NSQEp6ClRp888888888880".
