(* Types shared by the regenerated tables (Gen/) and the hand-written codec model.  No functions of pyais here. *)
From Coq Require Import ZArith List String.
Require Import Gen.GenEnums.
Import ListNotations.
Open Scope Z_scope.

(* The value of a message attribute, as observable through asdict().
   Scaled reals live in the "decimal world": [VFloat num den] stands for the Python float that is the correctly
   rounded quotient num/den (the harness compares with `x == num/den` on Python ints, which is exact). *)
Inductive value :=
| VNone
| VInt (z : Z)
| VBool (b : bool)
| VFloat (num : Z) (den : positive)
| VStr (s : list Z)                  (* code points *)
| VBytes (b : list Z)                (* byte values *)
| VEnum (e : enum_id) (code : Z)     (* a member of an IntEnum *)
| VTurn (code : Z).                  (* a member of the float enum TurnRate *)

Inductive dtype := DInt | DBool | DFloat | DStr | DBytes.

(* a reference to a converter as written in a bit_field(...) declaration *)
Inductive conv_ref :=
| CNamed (name : string)             (* a module-level function of messages.py: from_speed, to_lat_lon, ... *)
| CEnumFromValue (e : enum_id)       (* EnumClass.from_value *)
| CEnumCtor (e : enum_id).           (* the enumeration class itself *)

Record field := mkField {
  f_name : string;
  f_width : nat;
  f_dtype : dtype;
  f_signed : bool;
  f_from : option conv_ref;          (* from_converter: applied before encoding *)
  f_to : option conv_ref;            (* to_converter: applied after decoding *)
  f_attrs_conv : option conv_ref;    (* attrs-level converter=..., runs in __init__ *)
  f_default : option value;          (* metadata default (None = no default) *)
  f_varlen : bool
}.

(* decimal constants such as 10.0, 600000.0, 4.733 : numerator / 10^exp *)
Record dec := mkDec { dec_num : Z; dec_exp : nat }.

(* the shapes of converter functions the translator recognises (anything else fails closed) *)
Inductive conv_shape :=
| ShMul (c : dec)                    (* return v * c            *)
| ShFloatMul (c : dec)               (* return float(v) * c     *)
| ShDiv (c : dec)                    (* return v / c            *)
| ShRoundFloatMul (c : dec)          (* return round(float(v) * c)      *)
| ShRoundFloatDiv (c : dec) (nd : Z) (* return round(float(v) / c, nd)  *)
| ShInt                              (* return int(v)           *)
| ShToTurn (k127 k128 : Z) (c : dec) (* to_turn   with its three constants *)
| ShFromTurn (k127 k128 : Z) (c : dec). (* from_turn *)

(* variant dispatch on decode: tests on bits read with get_int *)
Inductive dtree (cls : Type) :=
| DLeaf (c : cls)
| DRaise
| DIfBits (lo hi : nat) (t e : dtree cls)            (* if get_int(bit_arr, lo, hi): t else: e *)
| DIfBitsEq (lo hi : nat) (v : Z) (t e : dtree cls). (* if get_int(bit_arr, lo, hi) == v: t else: e *)
Arguments DLeaf {cls} c.
Arguments DRaise {cls}.
Arguments DIfBits {cls} lo hi t e.
Arguments DIfBitsEq {cls} lo hi v t e.

(* variant dispatch on create: tests on keyword arguments *)
Inductive ctree (cls : Type) :=
| CLeaf (c : cls)
| CRaise
| CIfKw (key : string) (dflt : value) (t e : ctree cls)              (* if kwargs.get(key, dflt): *)
| CIfKwIntEq (key : string) (dflt : value) (v : Z) (t e : ctree cls). (* if int(kwargs.get(key, dflt)) == v: *)
Arguments CLeaf {cls} c.
Arguments CRaise {cls}.
Arguments CIfKw {cls} key dflt t e.
Arguments CIfKwIntEq {cls} key dflt v t e.
