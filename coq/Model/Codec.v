(* L2 payload codec: hand-written model of
     util.decode_into_bit_array, decode_bin_as_ascii6, get_int, int_to_bin, str_to_bin, bytes2bits, bits2bytes,
     encode_ascii_6, to_six_bit; messages.Payload.from_bitarray / to_bitarray / encode / create / __force_type,
     AISSentence.decode's class lookup, and the converter shapes,
   parameterised by the regenerated tables of Gen/.  No proofs in this file. *)
From Coq Require Import ZArith List Bool String.
Require Import Prim.Exn Prim.Bits Gen.GenEnums Model.FieldTypes Gen.GenTables Gen.GenDispatch Gen.GenConv Gen.GenAlpha.
Import ListNotations.
Open Scope list_scope.
Open Scope Z_scope.
Open Scope exn_scope.
Local Notation length := List.length (only parsing).

(* ------------------------------------------------------------------------------------------------ *)
(* small arithmetic helpers                                                                           *)

(* round half to even of the rational a/b, b > 0  (Python's round() on exact values) *)
Definition rhe (a b : Z) : Z :=
  let q := a / b in
  let r := a mod b in
  if 2 * r <? b then q else if b <? 2 * r then q + 1 else if Z.even q then q else q + 1.

(* int(x) for a rational: truncation toward zero *)
Definition trunc_div (a b : Z) : Z := Z.quot a b.

Definition pow10 (n : nat) : Z := 10 ^ Z.of_nat n.
Definition pow10p (n : nat) : positive := Z.to_pos (pow10 n).

Fixpoint assoc_z {B} (k : Z) (l : list (Z * B)) : option B :=
  match l with
  | [] => None
  | (k', v) :: r => if k =? k' then Some v else assoc_z k r
  end.
Fixpoint assoc_s {B} (k : string) (l : list (string * B)) : option B :=
  match l with
  | [] => None
  | (k', v) :: r => if String.eqb k k' then Some v else assoc_s k r
  end.

(* ------------------------------------------------------------------------------------------------ *)
(* util.decode_into_bit_array                                                                         *)

Definition dearmor_char (c : Z) : Z := Z.land (c - (if c <? 96 then 48 else 56)) 63.

(* f'{c:b}' for c >= 0: binary digits without leading zeros, "0" for 0 *)
Definition bin_digits (c : Z) : bits :=
  match c with
  | Zpos p => z_to_bits (Pos.to_nat (Pos.size p)) c
  | _ => [false]
  end.

(* str.zfill(n) on a string of binary digits *)
Definition zfill (n : Z) (b : bits) : bits := repeat false (Z.to_nat (n - Z.of_nat (length b))) ++ b.

Definition SSIZE_MIN : Z := - 2 ^ 63.
Definition SSIZE_MAX : Z := 2 ^ 63 - 1.

Fixpoint decode_into_bit_array (data : list Z) (fill_bits : Z) : M bits :=
  match data with
  | [] => Ok []
  | c :: rest =>
    if negb ((32 <=? c) && (c <=? 126)) then Raise (Lib NonPrintableCharacterException) else
    let v := dearmor_char c in
    match rest with
    | [] =>
      if fill_bits =? 0 then Ok (z_to_bits 6 v)
      else if fill_bits <? 0 then Raise (Py ValueError)                       (* negative shift count *)
      else if (6 - fill_bits <? SSIZE_MIN) then Raise (Py OverflowError)      (* zfill argument *)
      else Ok (zfill (6 - fill_bits) (bin_digits (Z.shiftr v fill_bits)))
    | _ => r <- decode_into_bit_array rest fill_bits ;; Ok (z_to_bits 6 v ++ r)
    end
  end.

(* ------------------------------------------------------------------------------------------------ *)
(* util.decode_bin_as_ascii6                                                                          *)

Definition ascii6_char (chunk : bits) : Z :=
  let n := Z.shiftr (from_bytes_u chunk) 2 in
  if n <? 32 then n + 64 else n.

Fixpoint ascii6_loop (cs : list bits) : list Z :=
  match cs with
  | [] => []
  | c :: r => let n := ascii6_char c in if n =? 64 then [] else n :: ascii6_loop r
  end.

(* str.strip() on text whose characters are all in 32..95: the only white space is the blank *)
Fixpoint lstrip_sp (s : list Z) : list Z :=
  match s with
  | c :: r => if c =? 32 then lstrip_sp r else s
  | [] => []
  end.
Definition strip_sp (s : list Z) : list Z := rev (lstrip_sp (rev (lstrip_sp s))).

Definition decode_bin_as_ascii6 (b : bits) : list Z := strip_sp (ascii6_loop (chunks 6 b)).

(* ------------------------------------------------------------------------------------------------ *)
(* converters                                                                                          *)

Definition dec_num_den (c : dec) : Z * Z := (dec_num c, pow10 (dec_exp c)).

(* the number a value denotes, as a fraction (for arithmetic converters) *)
Definition as_frac (v : value) : option (Z * Z) :=
  match v with
  | VInt z => Some (z, 1)
  | VBool b => Some (b2z b, 1)
  | VFloat n d => Some (n, Zpos d)
  | VEnum _ z => Some (z, 1)
  | VTurn z => Some (z, 1)
  | _ => None
  end.

Definition mkfloat (n d : Z) : value :=
  (* keep denominators positive and, where the quotient is integral, canonical (den 1) *)
  if d =? 0 then VNone
  else if n mod d =? 0 then VFloat (n / d) 1
  else VFloat n (Z.to_pos d).

Definition zabs_frac_eq (n d k : Z) : bool := Z.abs n =? k * d.     (* |n/d| = k, d > 0 *)

Definition sgn (n : Z) : Z := if n <? 0 then -1 else 1.

(* round(c * sqrt(x)) for x = a/b >= 0, c = cn/cd : exact round-half-even of sqrt(cn^2 a / (cd^2 b)) *)
Definition round_sqrt (a b : Z) : Z :=
  (* a/b >= 0, b > 0 *)
  let k := Z.sqrt (a / b) in
  let lhs := 4 * a in
  let rhs := b * (2 * k + 1) * (2 * k + 1) in
  if lhs <? rhs then k else if rhs <? lhs then k + 1 else if Z.even k then k else k + 1.

Definition parse_digits (s : list Z) : option Z :=
  (* int(str) for a plain non-empty string of ASCII digits; everything else is outside the model *)
  match s with
  | [] => None
  | _ => fold_left (fun acc c => match acc with
                                 | Some a => if (48 <=? c) && (c <=? 57) then Some (10 * a + (c - 48)) else None
                                 | None => None end) s (Some 0)
  end.

Definition apply_shape (sh : conv_shape) (v : value) : M value :=
  match sh with
  | ShMul c | ShFloatMul c =>
    match as_frac v with
    | Some (n, d) => let '(cn, cd) := dec_num_den c in Ok (mkfloat (n * cn) (d * cd))
    | None => Raise (Py TypeError)
    end
  | ShDiv c =>
    match as_frac v with
    | Some (n, d) => let '(cn, cd) := dec_num_den c in
                     if cn =? 0 then Raise (Py ZeroDivisionError) else Ok (mkfloat (n * cd * sgn cn) (d * Z.abs cn))
    | None => Raise (Py TypeError)
    end
  | ShRoundFloatMul c =>
    match as_frac v with
    | Some (n, d) => let '(cn, cd) := dec_num_den c in Ok (VInt (rhe (n * cn) (d * cd)))
    | None => Raise (Py TypeError)
    end
  | ShRoundFloatDiv c nd =>
    match as_frac v with
    | Some (n, d) => let '(cn, cd) := dec_num_den c in
                     if cn <=? 0 then Raise (Py Unmodelled) else
                     if nd <? 0 then Raise (Py Unmodelled) else
                     let p := 10 ^ nd in
                     Ok (mkfloat (rhe (n * cd * p) (d * cn)) p)
    | None => Raise (Py TypeError)
    end
  | ShInt =>
    match v with
    | VInt z => Ok (VInt z)
    | VBool b => Ok (VInt (b2z b))
    | VEnum _ z => Ok (VInt z)
    | VFloat n d => Ok (VInt (trunc_div n (Zpos d)))
    | VTurn z => Ok (VInt z)
    | VStr s => match parse_digits s with Some z => Ok (VInt z) | None => Raise (Py Unmodelled) end
    | _ => Raise (Py TypeError)
    end
  | ShToTurn k127 k128 c =>
    match as_frac v with
    | Some (n, d) =>
      if n =? 0 then Ok (VFloat 0 1)
      else if zabs_frac_eq n d k127 then
        (* TurnRate(turn): look-up by value *)
        (if n mod d =? 0 then m <- TurnRate_ctor (n / d) ;; Ok (VTurn m) else Raise (Py ValueError))
      else if zabs_frac_eq n d k128 then Ok (VTurn (-128))     (* TurnRate.NO_TI_DEFAULT *)
      else
        let '(cn, cd) := dec_num_den c in
        if cn <=? 0 then Raise (Py Unmodelled) else
        (* copysign(round((turn / c) ** 2), turn) *)
        Ok (VFloat (sgn n * rhe (n * n * cd * cd) (d * d * cn * cn)) 1)
    | None => Raise (Py TypeError)
    end
  | ShFromTurn k127 k128 c =>
    match v with
    | VNone => Ok (VInt 0)
    | _ =>
      match as_frac v with
      | Some (n, d) =>
        if n =? 0 then Ok (VInt 0)
        else if zabs_frac_eq n d k127 || zabs_frac_eq n d k128 then Ok (VInt (trunc_div n d))
        else
          let '(cn, cd) := dec_num_den c in
          if cn <=? 0 then Raise (Py Unmodelled) else
          (* int(copysign(round(c * sqrt(abs(turn))), turn)) *)
          Ok (VInt (sgn n * round_sqrt (cn * cn * Z.abs n) (cd * cd * d)))
      | None => Raise (Py TypeError)
      end
    end
  end.

Definition enum_of_value (e : enum_id) (v : value) : M value :=
  match v with
  | VInt z => m <- enum_ctor e z ;; Ok (VEnum e m)
  | VBool b => m <- enum_ctor e (b2z b) ;; Ok (VEnum e m)
  | VEnum _ z => m <- enum_ctor e z ;; Ok (VEnum e m)
  | _ => Raise (Py Unmodelled)     (* non-integer arguments of an enumeration constructor are not modelled *)
  end.

Definition apply_conv (c : conv_ref) (v : value) : M value :=
  match c with
  | CNamed name =>
    match assoc_s name conv_table with
    | Some sh => apply_shape sh v
    | None => Raise (Py Unmodelled)
    end
  | CEnumFromValue e => match v with VNone => Ok VNone | _ => enum_of_value e v end
  | CEnumCtor e => enum_of_value e v
  end.

Definition apply_opt_conv (c : option conv_ref) (v : value) : M value :=
  match c with Some c => apply_conv c v | None => Ok v end.

(* ------------------------------------------------------------------------------------------------ *)
(* Payload.from_bitarray                                                                              *)

Definition decode_field (f : field) (bs : bits) : M value :=
  let raw :=
    match f_dtype f with
    | DInt | DBool | DFloat =>
      let shift := Z.of_nat (pad_len (length bs)) in
      let v := Z.shiftr (if f_signed f then from_bytes_s bs else from_bytes_u bs) shift in
      match f_dtype f with
      | DFloat => VFloat v 1
      | DBool => VBool (negb (v =? 0))
      | _ => VInt v
      end
    | DStr => VStr (decode_bin_as_ascii6 bs)
    | DBytes => VBytes (bits_to_bytes bs)
    end in
  apply_opt_conv (f_to f) raw.

(* the loop of from_bitarray with its two cursors; returns the keyword arguments in field order *)
Fixpoint from_bitarray_loop (fs : list field) (b : bits) (cur end_ : nat) : M (list value) :=
  match fs with
  | [] => Ok []
  | f :: rest =>
    let len := List.length b in
    if (len <=? end_)%nat then
      r <- from_bitarray_loop rest b cur end_ ;; Ok (VNone :: r)
    else
      let end' := Nat.min len (cur + f_width f) in
      v <- decode_field f (slice b cur end') ;;
      r <- from_bitarray_loop rest b end' end' ;;
      Ok (v :: r)
  end.

(* cls( **kwargs ): the attrs-level converters run in __init__, on every attribute (None included) *)
Fixpoint init_attrs (fs : list field) (vs : list value) : M (list value) :=
  match fs, vs with
  | f :: fr, v :: vr => v' <- apply_opt_conv (f_attrs_conv f) v ;; r <- init_attrs fr vr ;; Ok (v' :: r)
  | _, _ => Ok []
  end.

Definition from_bitarray (c : cls) (b : bits) : M (list value) :=
  kw <- from_bitarray_loop (fields_of c) b 0 0 ;;
  init_attrs (fields_of c) kw.

Fixpoint run_dtree (t : dtree cls) (b : bits) : M cls :=
  match t with
  | DLeaf c => Ok c
  | DRaise => Raise (Lib UnknownPartNoException)
  | DIfBits lo hi t1 t2 => if get_int b lo hi false =? 0 then run_dtree t2 b else run_dtree t1 b
  | DIfBitsEq lo hi v t1 t2 => if get_int b lo hi false =? v then run_dtree t1 b else run_dtree t2 b
  end.

(* MSG_CLASS[ais_id].from_bitarray(bit_array), with AISSentence.decode's KeyError conversion *)
Definition decode_bits_as (ais_id : Z) (b : bits) : M (cls * list value) :=
  match assoc_z ais_id msg_class_table with
  | None => Raise (Lib UnknownMessageException)
  | Some (dt, _) => c <- run_dtree dt b ;; vs <- from_bitarray c b ;; Ok (c, vs)
  end.

Definition decode_bits (b : bits) : M (cls * list value) := decode_bits_as (get_int b 0 6 false) b.

(* ------------------------------------------------------------------------------------------------ *)
(* Payload.to_bitarray / encode                                                                        *)

Definition nbits_of_width (w : nat) : nat := (8 * ((w + 7) / 8))%nat.

Definition int_to_bin (val : Z) (width : nat) (signed : bool) : M bits :=
  let w := Z.of_nat width in
  if 2 ^ w - 1 <=? val then Ok (repeat true width)
  else
    let nb := nbits_of_width width in
    let fits := if signed then (- 2 ^ (Z.of_nat nb - 1) <=? val) && (val <? 2 ^ (Z.of_nat nb - 1))
                else (0 <=? val) in
    if (nb =? 0)%nat then (if val =? 0 then Ok [] else Raise (Py OverflowError))
    else if fits then Ok (skipn (nb - width) (z_to_bits nb val))
    else Raise (Py OverflowError).

Definition upper (c : Z) : Z := if (97 <=? c) && (c <=? 122) then c - 32 else c.

Definition to_six_bit (c : Z) : M bits :=
  if 128 <=? c then Raise (Py Unmodelled) else     (* str.upper() of non-ASCII text is not modelled *)
  match assoc_z (upper c) SIX_BIT_ENCODING with
  | Some v => Ok (z_to_bits 6 v)
  | None => Raise (Py ValueError)
  end.

Fixpoint str_to_bin_loop (s : list Z) : M bits :=
  match s with
  | [] => Ok []
  | c :: r => b <- to_six_bit c ;; br <- str_to_bin_loop r ;; Ok (b ++ br)
  end.

Definition str_to_bin (val : list Z) (width : nat) (trailing_spaces : bool) : M bits :=
  let num_chars := (width / 6)%nat in
  let val := if trailing_spaces then val ++ repeat 64 (num_chars - List.length val) else val in
  str_to_bin_loop (firstn num_chars val).

Definition bytes2bits (val : list Z) (default : bits) : bits :=
  match val with
  | [] => default
  | _ => bytes_to_bits val
  end.

Definition value_as_int (v : value) : M Z :=
  match v with
  | VInt z => Ok z
  | VBool b => Ok (b2z b)
  | VEnum _ z => Ok z
  | VFloat n d => Ok (trunc_div n (Zpos d))      (* only reached through int(val) for float fields *)
  | VTurn z => Ok z
  | _ => Raise (Py TypeError)
  end.

Definition is_intlike (v : value) : bool :=
  match v with VInt _ | VBool _ | VEnum _ _ => true | _ => false end.

(* bits of one attribute; None = attribute skipped *)
Definition encode_field (f : field) (v : value) : M (option bits) :=
  match v with
  | VNone => Ok None
  | _ =>
    val <- apply_opt_conv (f_from f) v ;;
    b <- match f_dtype f with
         | DInt | DBool =>
           (* int_to_bin compares and calls to_bytes: a float here fails with AttributeError *)
           match val with
           | VFloat _ _ | VTurn _ => Raise (Py AttributeError)
           | _ => z <- value_as_int val ;; int_to_bin z (f_width f) (f_signed f)
           end
         | DFloat => z <- value_as_int val ;; int_to_bin z (f_width f) (f_signed f)
         | DStr => match val with
                   | VStr s => str_to_bin s (f_width f) (negb (f_varlen f))
                   | _ => Raise (Py TypeError)
                   end
         | DBytes => match val with
                     | VBytes bs => Ok (bytes2bits bs (repeat false (f_width f)))
                     | _ => Raise (Py TypeError)
                     end
         end ;;
    Ok (Some (firstn (f_width f) b))
  end.

Fixpoint to_bitarray_loop (fs : list field) (vs : list value) : M bits :=
  match fs, vs with
  | f :: fr, v :: vr =>
    ob <- encode_field f v ;;
    r <- to_bitarray_loop fr vr ;;
    Ok (match ob with Some b => b ++ r | None => r end)
  | _, _ => Ok []
  end.

Definition to_bitarray (c : cls) (vs : list value) : M bits := to_bitarray_loop (fields_of c) vs.

Definition armor_char (v : Z) : M Z :=
  match assoc_z v PAYLOAD_ARMOR with Some c => Ok c | None => Raise (Py KeyError) end.

Fixpoint encode_ascii_6_loop (cs : list bits) (padding : nat) : M (list Z * nat) :=
  match cs with
  | [] => Ok ([], padding)
  | c :: r =>
    let padding := (6 - List.length c)%nat in
    a <- armor_char (Z.shiftr (from_bytes_u c) 2) ;;
    '(out, p) <- encode_ascii_6_loop r padding ;;
    Ok (a :: out, p)
  end.

Definition encode_ascii_6 (b : bits) : M (list Z * nat) := encode_ascii_6_loop (chunks 6 b) 0.

Definition encode_msg_payload (c : cls) (vs : list value) : M (list Z * nat) :=
  b <- to_bitarray c vs ;; encode_ascii_6 b.

(* ------------------------------------------------------------------------------------------------ *)
(* Payload.create / __force_type                                                                       *)

Definition truthy (v : value) : bool :=
  match v with
  | VNone => false
  | VInt z => negb (z =? 0)
  | VBool b => b
  | VFloat n _ => negb (n =? 0)
  | VStr s => negb (Nat.eqb (List.length s) 0)
  | VBytes s => negb (Nat.eqb (List.length s) 0)
  | VEnum _ z => negb (z =? 0)
  | VTurn z => negb (z =? 0)
  end.

Definition force_type (f : field) (v : value) : M value :=
  match v with
  | VNone => Ok VNone
  | _ =>
    match f_dtype f, v with
    (* isinstance(val, d_type): already of the right type *)
    | DInt, (VInt _ | VBool _ | VEnum _ _) => Ok v
    | DBool, VBool _ => Ok v
    | DFloat, (VFloat _ _ | VTurn _) => Ok v
    | DStr, VStr _ => Ok v
    | DBytes, VBytes _ => Ok v
    (* coerce_val *)
    | DBytes, _ => Raise (Py ValueError)
    | DInt, VFloat n d => Ok (VInt (trunc_div n (Zpos d)))
    | DInt, VTurn z => Ok (VInt z)
    | DInt, VStr s => match parse_digits s with Some z => Ok (VInt z) | None => Raise (Py Unmodelled) end
    | DInt, _ => Raise (Py Unmodelled)
    | DBool, _ => Ok (VBool (truthy v))
    | DFloat, VInt z => Ok (VFloat z 1)
    | DFloat, VBool b => Ok (VFloat (b2z b) 1)
    | DFloat, VEnum _ z => Ok (VFloat z 1)
    | DFloat, _ => Raise (Py Unmodelled)
    | DStr, _ => Raise (Py Unmodelled)
    end
  end.

Fixpoint create_args (fs : list field) (kwargs : list (string * value)) : M (list value) :=
  match fs with
  | [] => Ok []
  | f :: rest =>
    a <- match assoc_s (f_name f) kwargs with
         | Some v => force_type f v
         | None => match f_default f with
                   | Some d => Ok d
                   | None => Raise (Py TypeError)       (* attrs: missing required argument -- see create_cls *)
                   end
         end ;;
    r <- create_args rest kwargs ;;
    Ok (a :: r)
  end.

(* cls.create( **kwargs ).  Python evaluates all __force_type calls first (a ValueError there wins over the
   TypeError of a missing mandatory argument, which only cls( **args ) raises); modelled by two passes. *)
Fixpoint force_all (fs : list field) (kwargs : list (string * value)) : M unit :=
  match fs with
  | [] => Ok tt
  | f :: rest =>
    _ <- match assoc_s (f_name f) kwargs with Some v => force_type f v | None => Ok VNone end ;;
    force_all rest kwargs
  end.

Definition create_cls (c : cls) (kwargs : list (string * value)) : M (list value) :=
  _ <- force_all (fields_of c) kwargs ;;
  args <- create_args (fields_of c) kwargs ;;
  init_attrs (fields_of c) args.

Definition kw_get (kwargs : list (string * value)) (k : string) (d : value) : value :=
  match assoc_s k kwargs with Some v => v | None => d end.

Fixpoint run_ctree (t : ctree cls) (kwargs : list (string * value)) : M cls :=
  match t with
  | CLeaf c => Ok c
  | CRaise => Raise (Lib UnknownPartNoException)
  | CIfKw k d t1 t2 => if truthy (kw_get kwargs k d) then run_ctree t1 kwargs else run_ctree t2 kwargs
  | CIfKwIntEq k d v t1 t2 =>
    match kw_get kwargs k d with
    | VInt z => if z =? v then run_ctree t1 kwargs else run_ctree t2 kwargs
    | VBool b => if b2z b =? v then run_ctree t1 kwargs else run_ctree t2 kwargs
    | _ => Raise (Py Unmodelled)
    end
  end.

(* encode.data_to_payload: MSG_CLASS[ais_type].create( **data ) *)
Definition create_msg (ais_type : Z) (kwargs : list (string * value)) : M (cls * list value) :=
  match assoc_z ais_type msg_class_table with
  | None => Raise (Py ValueError)
  | Some (_, ct) => c <- run_ctree ct kwargs ;; vs <- create_cls c kwargs ;; Ok (c, vs)
  end.
