(* The two multipart reassembly loops of pyais, statement by statement:

     stream_step  = one iteration of `for line in messages:` in AssembleMessages._assemble_messages (pyais/stream.py)
     queue_step   = one call of NMEAQueue.put_line (pyais/queue.py)

   The byte-level parser (NMEASentenceFactory.produce, Model/Nmea.v) and the tag block queue (TagBlockQueue.put_sentence,
   Model/Tbq.v) are other layers.  A step therefore receives, per input line,
     parsed : M sentence      the outcome of NMEASentenceFactory.produce(line)
     tbq    : option exn      the outcome of the optional self.tbq.put_sentence(sentence): None = there is no tag block
                              queue or the call returned normally, Some e = it raised e (only consulted when produce
                              returned normally, as in the code)
   and returns M (state * deliveries): Raise e = the exception e leaves the loop (the generator dies / put_line raises;
   the state after that is not modelled).  Deliveries = the sentences yielded / put on the queue by this step.

   state = (buffer, pending Gatehouse wrapper).  buffer = the dict `buffer` as an insertion-ordered association list
   slot -> list (option ais_sentence), slot = (seq_id or -1, channel).

   The loops exist twice in the code and differ (except tuple, wrapper handling); they are modelled separately and
   literally.  No proofs here (Proofs/AssembleProofs.v). *)
From Coq Require Import ZArith List Bool.
Require Import Prim.Exn Prim.Bits Prim.PyList Model.Sentence Model.AssembleIter.
Import ListNotations.
Open Scope Z_scope.
Open Scope exn_scope.

(* ---------------------------------------------------------------- the dict `buffer` *)

Definition asm_slot := (Z * list Z)%type.                       (* (int, str) *)

Fixpoint str_eqb (a b : list Z) : bool :=
  match a, b with
  | [], [] => true
  | x :: a', y :: b' => (x =? y) && str_eqb a' b'
  | _, _ => false
  end.

Definition slot_eqb (a b : asm_slot) : bool := (fst a =? fst b) && str_eqb (snd a) (snd b).

Definition asm_buffer := list (asm_slot * list (option ais_sentence)).

(* buffer[slot] (None = KeyError; never happens in the loops, the key is created just before) *)
Fixpoint buf_get (b : asm_buffer) (s : asm_slot) : option (list (option ais_sentence)) :=
  match b with
  | [] => None
  | (k, v) :: r => if slot_eqb s k then Some v else buf_get r s
  end.

(* slot in buffer *)
Definition buf_mem (b : asm_buffer) (s : asm_slot) : bool :=
  match buf_get b s with Some _ => true | None => false end.

(* buffer[slot] = v : an existing key keeps its position, a new key goes to the end *)
Fixpoint buf_set (b : asm_buffer) (s : asm_slot) (v : list (option ais_sentence)) : asm_buffer :=
  match b with
  | [] => [(s, v)]
  | (k, w) :: r => if slot_eqb s k then (k, v) :: r else (k, w) :: buf_set r s v
  end.

(* del buffer[slot] *)
Fixpoint buf_del (b : asm_buffer) (s : asm_slot) : asm_buffer :=
  match b with
  | [] => []
  | (k, w) :: r => if slot_eqb s k then r else (k, w) :: buf_del r s
  end.

Definition asm_state := (asm_buffer * option gatehouse)%type.
Definition asm_init : asm_state := ([], None).

(* ---------------------------------------------------------------- AISSentence properties *)

(* truthiness of Optional[int] *)
Definition seq_truthy (s : option Z) : bool :=
  match s with None => false | Some v => negb (v =? 0) end.

(* return not self.seq_id and self.frag_num == self.frag_cnt == 1 *)
Definition is_single (m : ais_sentence) : bool :=
  negb (seq_truthy (a_seq_id m)) && ((a_frag_num m =? a_frag_cnt m) && (a_frag_cnt m =? 1)).

Definition fragment_count (m : ais_sentence) : Z := a_frag_cnt m.

(* [m for m in msg_parts if m is not None] *)
Fixpoint not_none {A} (l : list (option A)) : list A :=
  match l with
  | [] => []
  | Some x :: r => x :: not_none r
  | None :: r => not_none r
  end.

(* except tuples of the two loops *)
Definition stream_except : list handler :=
  [HLib InvalidNMEAMessageException; HLib NonPrintableCharacterException; HLib UnknownMessageException].
Definition queue_except : list handler :=
  [HLib InvalidNMEAMessageException; HLib NonPrintableCharacterException; HLib UnknownMessageException;
   HPy IndexError].

(* self.__add_to_tbq(sentence) *)
Definition add_to_tbq (tbq : option exn) : M unit :=
  match tbq with None => Ok tt | Some e => Raise e end.

(* ---------------------------------------------------------------- stream.py: AssembleMessages._assemble_messages *)

(* the body of the try statement: Ok (st', None) = `continue` was executed inside it, Ok (st, Some sentence) = fell
   through *)
Definition stream_try (st : asm_state) (parsed : M sentence) (tbq : option exn) : M (asm_state * option sentence) :=
  sentence <- parsed ;;                                     (* sentence = NMEASentenceFactory.produce(line) *)
  _ <- add_to_tbq tbq ;;                                    (* self.__add_to_tbq(sentence) *)
  match sentence with
  | SGatehouse g =>                                         (* if sentence.TYPE == GatehouseSentence.TYPE: *)
      Ok ((fst st, Some g), None)                           (*     self.__set_last_wrapper_msg(sentence); continue *)
  | _ => Ok (st, Some sentence)
  end.

(* __get_last_wrapper_msg / __insert_wrapper_msg: take and clear; attach only when there is one *)
Definition stream_insert_wrapper (wrapper : option gatehouse) (msg : ais_sentence) : ais_sentence * option gatehouse :=
  let wrapper_msg := wrapper in                             (* wrapper_msg = self.wrapper_msg *)
  let cleared : option gatehouse := None in                 (* self.wrapper_msg = None *)
  match wrapper_msg with
  | Some w => (ais_set_wrapper msg (Some w), cleared)       (* if wrapper_msg: msg.wrapper_msg = wrapper_msg *)
  | None => (msg, cleared)
  end.

Definition stream_step (st : asm_state) (parsed : M sentence) (tbq : option exn)
  : M (asm_state * list ais_sentence) :=
  r <- try_except (stream_try st parsed tbq) stream_except
         (fun _ => Ok (st, None)) ;;                        (* except (...): continue *)
  let '(st1, fell_through) := r in
  match fell_through with
  | None => Ok (st1, [])                                    (* continue *)
  | Some (SGatehouse _) => Ok (st1, [])                     (* if not sentence.TYPE == AISSentence.TYPE: continue *)
  | Some (SAis msg) =>
      let '(buffer, wrapper) := st1 in
      if is_single msg then
        let '(out, wrapper') := stream_insert_wrapper wrapper msg in
        Ok ((buffer, wrapper'), [out])                      (* yield self.__insert_wrapper_msg(msg) *)
      else
        let seq_id := match a_seq_id msg with None => -1 | Some v => v end in
        let slot := (seq_id, a_channel msg) in
        let buffer1 :=
          if negb (buf_mem buffer slot)                     (* if slot not in buffer: *)
          then buf_set buffer slot (pyl_repeat None (Z.max (fragment_count msg) 255))
          else buffer in
        match buf_get buffer1 slot with
        | None => Raise (Py KeyError)                       (* unreachable *)
        | Some arr =>
            arr' <- pyl_setitem arr (a_frag_num msg - 1) (Some msg) ;;   (* buffer[slot][msg.frag_num - 1] = msg *)
            let buffer2 := buf_set buffer1 slot arr' in
            let msg_parts := pyl_slice arr' 0 (fragment_count msg) in    (* buffer[slot][0:msg.fragment_count] *)
            let not_none_parts := not_none msg_parts in
            if pyl_len not_none_parts =? fragment_count msg then
              full <- assemble_from_iterable not_none_parts ;;
              let '(out, wrapper') := stream_insert_wrapper wrapper full in
              Ok ((buf_del buffer2 slot, wrapper'), [out])  (* yield ...; del buffer[slot] *)
            else Ok ((buffer2, wrapper), [])
        end
  end.

(* ---------------------------------------------------------------- queue.py: NMEAQueue.put_line *)

Definition queue_try (st : asm_state) (parsed : M sentence) (tbq : option exn) : M (asm_state * option sentence) :=
  sentence <- parsed ;;                                     (* sentence = NMEASentenceFactory.produce(line) *)
  _ <- add_to_tbq tbq ;;                                    (* self.__add_to_tbq(sentence) *)
  match sentence with
  | SGatehouse g => Ok ((fst st, Some g), None)             (* self.last_wrapper = sentence; return None *)
  | _ => Ok (st, Some sentence)
  end.

Definition queue_step (st : asm_state) (parsed : M sentence) (tbq : option exn)
  : M (asm_state * list ais_sentence) :=
  r <- try_except (queue_try st parsed tbq) queue_except
         (fun _ => Ok (st, None)) ;;                        (* except (..., IndexError): return None *)
  let '(st1, fell_through) := r in
  match fell_through with
  | None => Ok (st1, [])
  | Some (SGatehouse _) => Ok (st1, [])                     (* if not sentence.TYPE == AISSentence.TYPE: return None *)
  | Some (SAis sentence) =>
      let '(buffer, last_wrapper) := st1 in
      if is_single sentence then
        match last_wrapper with                             (* if self.last_wrapper: *)
        | Some w => Ok ((buffer, None), [ais_set_wrapper sentence (Some w)])
        | None => Ok ((buffer, None), [sentence])           (* super().put(sentence, block, timeout) *)
        end
      else
        let seq_id := match a_seq_id sentence with None => -1 | Some v => v end in
        let slot := (seq_id, a_channel sentence) in
        let buffer1 :=
          if negb (buf_mem buffer slot)
          then buf_set buffer slot (pyl_repeat None (Z.max (fragment_count sentence) 255))
          else buffer in
        match buf_get buffer1 slot with
        | None => Raise (Py KeyError)                       (* unreachable *)
        | Some arr =>
            arr' <- pyl_setitem arr (a_frag_num sentence - 1) (Some sentence) ;;
            let buffer2 := buf_set buffer1 slot arr' in
            let msg_parts := pyl_slice arr' 0 (fragment_count sentence) in
            let not_none_parts := not_none msg_parts in
            if pyl_len not_none_parts =? fragment_count sentence then
              full <- assemble_from_iterable not_none_parts ;;
              (* repaired code ("fix: attach the pending Gatehouse wrapper to assembled multi-part messages"):
                 if self.last_wrapper: full.wrapper_msg = self.last_wrapper; self.last_wrapper = None *)
              match last_wrapper with
              | Some w => Ok ((buf_del buffer2 slot, None), [ais_set_wrapper full (Some w)])
              | None => Ok ((buf_del buffer2 slot, None), [full])
              end                                           (* del self.buffer[slot]; super().put(full, ...) *)
            else Ok ((buffer2, last_wrapper), [])
        end
  end.

(* The queue loop as it was before the repair (kept for the refutation theorem and the regression example in
   Props/C18.v; not extracted into the check's correspondence). *)
Definition queue_step_unrepaired (st : asm_state) (parsed : M sentence) (tbq : option exn)
  : M (asm_state * list ais_sentence) :=
  r <- try_except (queue_try st parsed tbq) queue_except (fun _ => Ok (st, None)) ;;
  let '(st1, fell_through) := r in
  match fell_through with
  | None => Ok (st1, [])
  | Some (SGatehouse _) => Ok (st1, [])
  | Some (SAis sentence) =>
      let '(buffer, last_wrapper) := st1 in
      if is_single sentence then
        match last_wrapper with
        | Some w => Ok ((buffer, None), [ais_set_wrapper sentence (Some w)])
        | None => Ok ((buffer, None), [sentence])
        end
      else
        let seq_id := match a_seq_id sentence with None => -1 | Some v => v end in
        let slot := (seq_id, a_channel sentence) in
        let buffer1 :=
          if negb (buf_mem buffer slot)
          then buf_set buffer slot (pyl_repeat None (Z.max (fragment_count sentence) 255))
          else buffer in
        match buf_get buffer1 slot with
        | None => Raise (Py KeyError)
        | Some arr =>
            arr' <- pyl_setitem arr (a_frag_num sentence - 1) (Some sentence) ;;
            let buffer2 := buf_set buffer1 slot arr' in
            let msg_parts := pyl_slice arr' 0 (fragment_count sentence) in
            let not_none_parts := not_none msg_parts in
            if pyl_len not_none_parts =? fragment_count sentence then
              full <- assemble_from_iterable not_none_parts ;;
              Ok ((buf_del buffer2 slot, last_wrapper), [full])
            else Ok ((buffer2, last_wrapper), [])
        end
  end.

(* ---------------------------------------------------------------- running a loop over a sequence of lines *)

Definition asm_input := (M sentence * option exn)%type.
Definition asm_stepfn := asm_state -> M sentence -> option exn -> M (asm_state * list ais_sentence).

(* (deliveries per consumed line, final state or the exception that ended the loop).  The list has one entry per line
   up to and excluding the line on which an exception escaped. *)
Fixpoint asm_run (step : asm_stepfn) (st : asm_state) (inputs : list asm_input)
  : list (list ais_sentence) * M asm_state :=
  match inputs with
  | [] => ([], Ok st)
  | (parsed, tbq) :: rest =>
      match step st parsed tbq with
      | Raise e => ([], Raise e)
      | Ok (st', out) => let '(outs, fin) := asm_run step st' rest in (out :: outs, fin)
      end
  end.

(* ---------------------------------------------------------------- queue.py: NMEAQueue.put_line on a BOUNDED queue

   NMEAQueue(maxsize=n) with put_line(line, block=False) or put_line(line, timeout=t): the final
   `super().put(item, block, timeout)` may raise queue.Full, which leaves put_line and reaches the caller.  The queue object
   lives on, so -- unlike for the other escaping exceptions -- the state after the raise is part of the model.

   Whether a put succeeds depends on how many items the consumer has taken so far.  That arithmetic stays outside: per
   input line the environment says what the final put WOULD do (bq_put), so that everything proved holds for every
   capacity and every consumer.  The value is consulted only when the line reaches a put.

   queue_step_b follows put_line statement by statement like queue_step, and in addition makes the ORDER of the last
   statements explicit: the pending wrapper is taken and cleared, (multi-part:) the message is assembled and its slot
   deleted, THEN the put is attempted in that state (bq_do_put); a refused put skips whatever follows it (nothing, in the
   code as it is). *)

Inductive bq_put := BqPutOk | BqPutFull.                        (* what super().put(item, block, timeout) does *)

Inductive bq_out :=
| BqNone                          (* put_line returned None without reaching a put *)
| BqPut (item : ais_sentence)     (* the item was put on the queue *)
| BqFull.                         (* queue.Full left put_line *)

(* super().put(item, block, timeout) executed in state st; `after` = the statements that follow the call (skipped when
   queue.Full propagates) *)
Definition bq_do_put (env : bq_put) (st : asm_state) (item : ais_sentence) (after : asm_state -> asm_state)
  : M (asm_state * bq_out) :=
  match env with
  | BqPutOk => Ok (after st, BqPut item)
  | BqPutFull => Ok (st, BqFull)                            (* raise Full *)
  end.

Definition queue_step_b (st : asm_state) (parsed : M sentence) (tbq : option exn) (env : bq_put)
  : M (asm_state * bq_out) :=
  r <- try_except (queue_try st parsed tbq) queue_except
         (fun _ => Ok (st, None)) ;;                        (* except (..., IndexError): return None *)
  let '(st1, fell_through) := r in
  match fell_through with
  | None => Ok (st1, BqNone)
  | Some (SGatehouse _) => Ok (st1, BqNone)                 (* if not sentence.TYPE == AISSentence.TYPE: return None *)
  | Some (SAis sentence) =>
      let '(buffer, last_wrapper) := st1 in
      if is_single sentence then
        let '(sentence', last_wrapper') :=
          match last_wrapper with                           (* if self.last_wrapper: *)
          | Some w => (ais_set_wrapper sentence (Some w), None)   (* sentence.wrapper_msg = ...; self.last_wrapper = None *)
          | None => (sentence, None)
          end in
        bq_do_put env (buffer, last_wrapper') sentence' (fun s => s)      (* super().put(sentence, block, timeout) *)
      else
        let seq_id := match a_seq_id sentence with None => -1 | Some v => v end in
        let slot := (seq_id, a_channel sentence) in
        let buffer1 :=
          if negb (buf_mem buffer slot)
          then buf_set buffer slot (pyl_repeat None (Z.max (fragment_count sentence) 255))
          else buffer in
        match buf_get buffer1 slot with
        | None => Raise (Py KeyError)                       (* unreachable *)
        | Some arr =>
            arr' <- pyl_setitem arr (a_frag_num sentence - 1) (Some sentence) ;;
            let buffer2 := buf_set buffer1 slot arr' in
            let msg_parts := pyl_slice arr' 0 (fragment_count sentence) in
            let not_none_parts := not_none msg_parts in
            if pyl_len not_none_parts =? fragment_count sentence then
              full <- assemble_from_iterable not_none_parts ;;
              let '(full', last_wrapper') :=
                match last_wrapper with                     (* if self.last_wrapper: *)
                | Some w => (ais_set_wrapper full (Some w), None)       (* full.wrapper_msg = ...; self.last_wrapper = None *)
                | None => (full, None)
                end in
              let buffer3 := buf_del buffer2 slot in        (* del self.buffer[slot] *)
              bq_do_put env (buffer3, last_wrapper') full' (fun s => s)   (* super().put(full, block, timeout) *)
            else Ok ((buffer2, last_wrapper), BqNone)
        end
  end.

(* NOT the code: put_line with its last two statements exchanged (`super().put(full, block, timeout)` before
   `del self.buffer[slot]`), as several reviewers proposed "so that the fragments are kept when the queue is full".  Kept
   only for the counterexample in Props/C03.v (a refused message then stays in its slot and is mixed into the next
   message of that slot); never extracted into the correspondence. *)
Definition queue_step_b_put_before_del (st : asm_state) (parsed : M sentence) (tbq : option exn) (env : bq_put)
  : M (asm_state * bq_out) :=
  r <- try_except (queue_try st parsed tbq) queue_except (fun _ => Ok (st, None)) ;;
  let '(st1, fell_through) := r in
  match fell_through with
  | None => Ok (st1, BqNone)
  | Some (SGatehouse _) => Ok (st1, BqNone)
  | Some (SAis sentence) =>
      let '(buffer, last_wrapper) := st1 in
      if is_single sentence then
        let '(sentence', last_wrapper') :=
          match last_wrapper with
          | Some w => (ais_set_wrapper sentence (Some w), None)
          | None => (sentence, None)
          end in
        bq_do_put env (buffer, last_wrapper') sentence' (fun s => s)
      else
        let seq_id := match a_seq_id sentence with None => -1 | Some v => v end in
        let slot := (seq_id, a_channel sentence) in
        let buffer1 :=
          if negb (buf_mem buffer slot)
          then buf_set buffer slot (pyl_repeat None (Z.max (fragment_count sentence) 255))
          else buffer in
        match buf_get buffer1 slot with
        | None => Raise (Py KeyError)
        | Some arr =>
            arr' <- pyl_setitem arr (a_frag_num sentence - 1) (Some sentence) ;;
            let buffer2 := buf_set buffer1 slot arr' in
            let msg_parts := pyl_slice arr' 0 (fragment_count sentence) in
            let not_none_parts := not_none msg_parts in
            if pyl_len not_none_parts =? fragment_count sentence then
              full <- assemble_from_iterable not_none_parts ;;
              let '(full', last_wrapper') :=
                match last_wrapper with
                | Some w => (ais_set_wrapper full (Some w), None)
                | None => (full, None)
                end in
              (* assemble_from_iterable works IN PLACE on messages[0]: the object in cell 0 of the slot now is `full` *)
              let buffer2' := buf_set buffer2 slot (match arr' with [] => [] | _ :: r => Some full' :: r end) in
              bq_do_put env (buffer2', last_wrapper') full' (fun '(b, w) => (buf_del b slot, w))
            else Ok ((buffer2, last_wrapper), BqNone)
        end
  end.

Definition bq_input := (asm_input * bq_put)%type.
Definition bq_stepfn := asm_state -> M sentence -> option exn -> bq_put -> M (asm_state * bq_out).

(* (outcome per line, final state or the exception -- other than queue.Full -- that ended the sequence of calls).  A caller
   that catches queue.Full goes on with the next line (and does NOT offer the refused line again: a repeated last fragment
   is a stale fragment for the slot table, which is already clean). *)
Fixpoint bq_run (step : bq_stepfn) (st : asm_state) (inputs : list bq_input) : list bq_out * M asm_state :=
  match inputs with
  | [] => ([], Ok st)
  | ((parsed, tbq), env) :: rest =>
      match step st parsed tbq env with
      | Raise e => ([], Raise e)
      | Ok (st', out) => let '(outs, fin) := bq_run step st' rest in (out :: outs, fin)
      end
  end.

(* ---------------------------------------------------------------- front-ends: which lines reach the loop *)

Definition byte_line := list Z.

(* stream.should_parse: len(byte_str) > 0 and byte_str[0] in (DOLLAR_SIGN, EXCLAMATION_POINT, BACKSLASH) *)
Definition should_parse (l : byte_line) : bool :=
  match l with
  | [] => false
  | c :: _ => (c =? 36) || (c =? 33) || (c =? 92)
  end.

(* IterMessages._iter_messages: every element of the iterable *)
Definition iter_source (lines : list byte_line) : list byte_line := lines.

(* Stream._iter_messages (no preprocessor): `if len(line) <= 10: continue`, then `if should_parse(line): yield line` *)
Definition stream_source (lines : list byte_line) : list byte_line :=
  filter (fun line => negb (pyl_len line <=? 10) && should_parse line) lines.

(* iterating a binary file object: readline() semantics, a line ends after each LF, the rest (if any) is the last line *)
Fixpoint split_after_lf_acc (cur : byte_line) (content : list Z) : list byte_line :=
  match content with
  | [] => match cur with [] => [] | _ => [rev cur] end
  | c :: r => if c =? 10 then rev (c :: cur) :: split_after_lf_acc [] r else split_after_lf_acc (c :: cur) r
  end.
Definition split_after_lf (content : list Z) : list byte_line := split_after_lf_acc [] content.

(* ByteStream.read: the iterable; BinaryIOStream.read / FileReaderStream: the file object's lines *)
Definition bytestream_source (lines : list byte_line) : list byte_line := stream_source lines.
Definition binaryio_source (content : list Z) : list byte_line := stream_source (split_after_lf content).
