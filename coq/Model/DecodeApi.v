(* The one-shot API of pyais/decode.py: _assemble_messages, decode, decode_nmea_and_ais; and AISSentence.decode.
   Hand-written, statement by statement.  The parser is Model/Nmea.v, the assembly Model/AssembleIter.v, the payload
   decoder Model/Codec.v (decode_bits_as = MSG_CLASS[ais_id].from_bitarray with the KeyError conversion).
   Arguments are byte strings (decode() encodes str arguments as UTF-8 first).  No proofs in this file. *)
From Coq Require Import ZArith List Bool.
Require Import Prim.Exn Prim.Bits Prim.PyBytes Model.Sentence Model.AssembleIter Model.FieldTypes Gen.GenTables
               Model.Codec Model.Nmea.
Import ListNotations.
Open Scope Z_scope.
Open Scope exn_scope.
Local Notation length := List.length (only parsing).

Fixpoint zmem_list (x : Z) (l : list Z) : bool :=
  match l with [] => false | y :: r => (x =? y) || zmem_list x r end.

(* range(lo, hi) *)
Definition zrange (lo hi : Z) : list Z := map (fun i => lo + Z.of_nat i) (seq 0 (Z.to_nat (hi - lo))).

(* the `for msg in args` loop of _assemble_messages; state = (temp, frags, frag_cnt) *)
Fixpoint assemble_loop (strict : bool) (args : list bytes) (temp : list ais_sentence) (frags : list Z) (frag_cnt : Z)
  : M (list ais_sentence * list Z * Z) :=
  match args with
  | [] => Ok (temp, frags, frag_cnt)
  | msg :: rest =>
    sentence <- produce msg ;;
    if strict && negb (c_is_valid (sentence_common sentence)) then Raise (Lib InvalidNMEAChecksum) else
    match sentence with
    | SAis a => assemble_loop strict rest (temp ++ [a]) (frags ++ [a_frag_num a]) (a_frag_cnt a)
    | SGatehouse _ => assemble_loop strict rest temp frags frag_cnt          (* ignore any other type of message *)
    end
  end.

(* decode._assemble_messages( *args, error_if_checksum_invalid=strict ) *)
Definition assemble_messages (strict : bool) (args : list bytes) : M ais_sentence :=
  '(temp, frags, frag_cnt) <- assemble_loop strict args [] [] 1 ;;
  if (length frags =? 0)%nat then Raise (Lib MissingMultipartMessageException) else
  if Z.of_nat (length temp) >? frag_cnt then Raise (Lib TooManyMessagesException) else
  let diff := filter (fun x => negb (zmem_list x frags)) (zrange 1 (frag_cnt + 1)) in
  if nonempty diff then Raise (Lib MissingMultipartMessageException) else
  assemble_from_iterable temp.

(* AISSentence.decode() *)
Definition sentence_decode (s : ais_sentence) : M (cls * list value) :=
  if negb (nonempty (a_payload s)) then Raise (Lib MissingPayloadException) else
  decode_bits_as (a_ais_id s) (a_bits s).

(* decode_nmea_and_ais( *args, error_if_checksum_invalid=strict ); decode() returns the second component *)
Definition decode_api (strict : bool) (args : list bytes) : M (ais_sentence * (cls * list value)) :=
  nmea <- assemble_messages strict args ;;
  msg <- sentence_decode nmea ;;
  Ok (nmea, msg).
