(* L3 sentence parsing, exception-precise: hand-written model of
     pyais/util.py      chk_to_int, compute_checksum, checksum
     pyais/messages.py  NMEASentenceFactory.produce / _pre_process / _produce,
                        NMEASentence.__init__, AISSentence.__init__, GatehouseSentence.__init__
   following the Python statement by statement, with the exact try scopes and except tuples.
   Python built-ins come from Prim/PyBytes.v and Prim/PyInt.v; decode_into_bit_array and get_int from Model/Codec.v
   and Prim/Bits.v; the limits from Gen/GenConst.v (regenerated from messages.py on every run).
   No proofs in this file. *)
From Coq Require Import ZArith List Bool.
Require Import Prim.Exn Prim.Bits Prim.PyBytes Prim.PyInt Gen.GenConst Model.Sentence Model.Codec.
Import ListNotations.
Open Scope Z_scope.
Open Scope exn_scope.
Local Notation length := List.length (only parsing).

Definition COMMA : Z := 44.
Definition ASTERISK : Z := 42.
Definition TAG_BLOCK_START : Z := 92.                 (* b'\\' *)
Definition B_DOLLAR_SIGN : bytes := [36].
Definition B_VDM : bytes := [86; 68; 77].
Definition B_VDO : bytes := [86; 68; 79].
Definition B_GH : bytes := [72; 80].                  (* b"HP" *)

Definition invalid_nmea {A} : M A := Raise (Lib InvalidNMEAMessageException).

(* ------------------------------------------------------------------------------------------------ *)
(* util.checksum(sentence) = reduce(xor, sentence)                                                    *)
Definition nmea_checksum (sentence : bytes) : M Z := reduce_xor sentence.

(* util.compute_checksum(msg) for bytes:  msg = msg[1:].split(b'*', 1)[0];  return reduce(xor, msg, 0) *)
Definition compute_checksum (msg : bytes) : M Z :=
  body <- py_index (bsplit_max ASTERISK (py_slice msg (Some 1) None) 1) 0 ;;
  Ok (reduce_xor_init body 0).

(* util.chk_to_int(chk_str) -> (fill_bits, checksum) *)
Definition chk_to_int (chk_str : bytes) : M (Z * Z) :=
  if (length chk_str =? 0)%nat then Ok (0, -1) else
  (* try: a, b = chk_str.split(b'*')  except ValueError: return 0, -1 *)
  ab <- try_except (mmap Some (unpack2 (bsplit ASTERISK chk_str))) [HPy ValueError] (fun _ => Ok None) ;;
  match ab with
  | None => Ok (0, -1)
  | Some (a, b) =>
    (* try: fill_bits = int(a)  except ValueError: fill_bits = 0 *)
    fill_bits <- try_except (py_int_bytes 10 a) [HPy ValueError] (fun _ => Ok 0) ;;
    (* try: checksum = int(b, 16)  except (IndexError, ValueError): checksum = -1 *)
    checksum <- try_except (py_int_bytes 16 b) [HPy IndexError; HPy ValueError] (fun _ => Ok (-1)) ;;
    Ok (fill_bits, checksum)
  end.

(* ------------------------------------------------------------------------------------------------ *)
(* NMEASentence.__init__(raw)  (the isinstance test is outside the model: raw is a byte string)       *)
Definition nmea_init (raw : bytes) : M nmea_common :=
  let fields := bsplit COMMA raw in
  first_field <- py_index fields 0 ;;
  let delimiter := py_slice first_field None (Some 1) in
  (* try: talker_id = ...decode('ascii'); type = ...decode('ascii')  except UnicodeDecodeError: raise Invalid... *)
  '(talker_id, type) <- try_except
                          (t <- decode_ascii (py_slice first_field (Some 1) (Some 3)) ;;
                           y <- decode_ascii (py_slice first_field (Some 3) None) ;;
                           Ok (t, y))
                          [HPy UnicodeDecodeError] (fun _ => invalid_nmea) ;;
  checksum <- py_index fields (-1) ;;
  '(fill, check) <- chk_to_int checksum ;;
  computed <- compute_checksum raw ;;
  let is_valid := check =? computed in
  let data_fields := py_slice fields (Some 1) (Some (-1)) in
  Ok (mkCommon raw delimiter talker_id type check fill is_valid data_fields None).

(* ------------------------------------------------------------------------------------------------ *)
(* GatehouseSentence.__init__(raw)                                                                    *)
Definition gatehouse_init (raw : bytes) : M gatehouse :=
  c <- nmea_init raw ;;
  let fields := c_data_fields c in
  try_except
    ('(year, month, day, hour, minute, second, millisecond) <- unpack7 (py_slice fields (Some 1) (Some 8)) ;;
     y <- py_int_bytes 10 year ;;
     mo <- py_int_bytes 10 month ;;
     d <- py_int_bytes 10 day ;;
     h <- py_int_bytes 10 hour ;;
     mi <- py_int_bytes 10 minute ;;
     s <- py_int_bytes 10 second ;;
     ms <- py_int_bytes 10 millisecond ;;
     _ <- py_datetime_check y mo d h mi s (ms * 1000) ;;
     f8 <- py_index fields 8 ;;
     country <- decode_ascii f8 ;;
     f9 <- py_index fields 9 ;;
     region <- decode_ascii f9 ;;
     f10 <- py_index fields 10 ;;
     pss <- decode_ascii f10 ;;
     f11 <- py_index fields 11 ;;
     online_data <- py_int_bytes 10 f11 ;;
     Ok (mkGh c (mkTs y mo d h mi s (ms * 1000)) country region pss online_data))
    [HException] (fun _ => invalid_nmea).

(* ------------------------------------------------------------------------------------------------ *)
(* AISSentence.__init__(raw)                                                                          *)
Definition ais_init (raw : bytes) : M ais_sentence :=
  c <- nmea_init raw ;;
  r <- try_except
         ('(message_fragments, fragment_number, message_id, channel, payload)
             <- unpack5 (py_slice (c_data_fields c) None (Some 5)) ;;
          frag_cnt <- py_int_bytes 10 message_fragments ;;
          frag_num <- py_int_bytes 10 fragment_number ;;
          seq_id <- (if nonempty message_id then mmap Some (py_int_bytes 10 message_id) else Ok None) ;;
          channel <- decode_ascii channel ;;
          Ok (frag_cnt, frag_num, seq_id, channel, payload))
         [HException] (fun _ => invalid_nmea) ;;
  let '(frag_cnt, frag_num, seq_id, channel, payload) := r in
  if Z.of_nat (length payload) >? MAX_PAYLOAD_LEN then invalid_nmea else
  if (frag_cnt >? MAX_FRAG_CNT) || (frag_num >? MAX_FRAG_CNT) then invalid_nmea else
  if (frag_cnt <? 1) || (frag_num <? 1) then invalid_nmea else
  if negb ((0 <=? c_fill_bits c) && (c_fill_bits c <=? 5)) then invalid_nmea else
  bit_array <- decode_into_bit_array payload (c_fill_bits c) ;;
  let ais_id := get_int bit_array 0 6 false in
  Ok (mkAis c frag_cnt frag_num seq_id channel payload bit_array ais_id None).

(* ------------------------------------------------------------------------------------------------ *)
(* NMEASentenceFactory                                                                                *)

(* _pre_process(raw) -> (sentence, tag block or None) *)
Definition pre_process (raw : bytes) : M (bytes * option bytes) :=
  let raw := strip raw in
  first <- py_index raw 0 ;;
  if first =? TAG_BLOCK_START then
    let ix_end := bfind TAG_BLOCK_START (py_slice raw (Some 1) None) + 1 in
    let tag_block := py_slice raw (Some 1) (Some ix_end) in
    Ok (py_slice raw (Some (ix_end + 1)) None, Some tag_block)
  else Ok (raw, None).

(* _produce(raw) *)
Definition produce_inner (raw : bytes) : M sentence :=
  let fields := bsplit COMMA raw in
  first_field <- py_index fields 0 ;;
  let delimiter := py_slice first_field None (Some 1) in
  let type_code := bupper (py_slice first_field (Some 3) None) in
  if bytes_eqb type_code B_VDM || bytes_eqb type_code B_VDO then mmap SAis (ais_init raw)
  else if bytes_eqb delimiter B_DOLLAR_SIGN && bytes_eqb type_code B_GH then mmap SGatehouse (gatehouse_init raw)
  else Raise (Lib UnknownMessageException).

(* produce(raw) *)
Definition produce (raw : bytes) : M sentence :=
  if (length (strip raw) =? 0)%nat then invalid_nmea else
  '(raw_sentence, tb) <- pre_process raw ;;
  sentence <- produce_inner raw_sentence ;;
  match tb with
  | Some t => if nonempty t then Ok (sentence_set_tag_block sentence (Some t)) else Ok sentence
  | None => Ok sentence
  end.
