(* pyais/stream.py, SocketStream.read -- the line splitter of the TCP/UDP readers -- and the line filter of
   Stream._iter_messages.  Hand-written, statement by statement; tied to the code by tools/props/C06.py.

   A socket is the sequence of results of successive recv() calls (UDPReceiver/TCPConnection only change how one
   chunk is obtained: recvfrom()[0] / recv()).  An empty result means "peer closed the connection"; the scripted
   receiver of the harness returns b'' once the script is exhausted, so the end of the list is an empty chunk.

   The code modelled is the repaired read() (worktree commit "fix: SocketStream.read carries incomplete lines over
   correctly for any chunking"):

       def read(self):
           partial: bytes = b''
           while True:
               body = self.recv()
               if not body:                                            # Server closed connection
                   return None
               lines = (partial + body).splitlines(keepends=True)      # prepend the carried-over incomplete line
               partial = b''
               if not lines[-1].endswith(b'\n'):
                   partial = lines.pop()                               # the last line was only partially received
               yield from lines                                        # all remaining lines are complete

   (The unchanged code split `body` alone, yielded `partial + lines[0]` unconditionally and set `partial = lines[-1]`
   when the chunk did not end in LF: a newline-free chunk was yielded AND carried, a chunk ending between CR and LF
   delivered the line twice.  Stage 1 of this layer modelled that code and refuted C06 with it; see NOTES_socket.md.)
*)
From Coq Require Import List ZArith Bool.
Require Import Prim.Splitlines.
Import ListNotations.
Open Scope Z_scope.

Definition sock_bytes := list Z.

(* one pass of the loop body for a non-empty [body]: (lines yielded, new partial).
   lines[-1] cannot raise IndexError: body is non-empty, hence so is (partial + body).splitlines(); [last _ []] and
   [removelast] are only ever applied to a non-empty list (Proofs/SocketProofs.v, sock_iteration_nonempty). *)
Definition sock_iteration (partial body : sock_bytes) : list sock_bytes * sock_bytes :=
  let lines := splitlines (partial ++ body) in
  let partial := [] in
  if negb (endswith1 (last lines []) LF)
  then (removelast lines, last lines [])                          (* partial = lines.pop() *)
  else (lines, partial).

Fixpoint sock_read_loop (partial : sock_bytes) (chunks : list sock_bytes) : list sock_bytes :=
  match chunks with
  | [] => []                                                      (* script exhausted: recv() returns b'' *)
  | body :: rest =>
    match body with
    | [] => []                                                    (* if not body: return *)
    | _ => let '(ys, partial') := sock_iteration partial body in
           ys ++ sock_read_loop partial' rest                     (* yield from lines; next iteration *)
    end
  end.

(* list(SocketStream.read()) for the given recv() results *)
Definition socket_read (chunks : list sock_bytes) : list sock_bytes := sock_read_loop [] chunks.

(* Stream._iter_messages (preprocessor None):
       for line in self.read():
           if len(line) <= 10: continue
           if should_parse(line): yield line
   should_parse: len(b) > 0 and b[0] in (ord('$'), ord('!'), ord('\\')) *)
Definition sock_should_parse (b : sock_bytes) : bool :=
  match b with
  | [] => false
  | c :: _ => (c =? 36) || (c =? 33) || (c =? 92)
  end.

Definition sock_line_filter (line : sock_bytes) : bool :=
  negb (Z.of_nat (length line) <=? 10) && sock_should_parse line.

Definition sock_iter_messages (chunks : list sock_bytes) : list sock_bytes :=
  filter sock_line_filter (socket_read chunks).
