(* The reader loops as a whole: one input LINE through NMEASentenceFactory.produce (Model/Nmea.v), the optional tag
   block queue (Model/Tbq.v) and one iteration of the reassembly loop (Model/Assemble.v: stream_step = the generator of
   AssembleMessages, queue_step = NMEAQueue.put_line).  This is the composition the readers perform; nothing new is
   modelled here.  [uni] is the oracle for int() of non-ASCII digit strings inherited from the tag block model. *)
From Coq Require Import ZArith List Bool.
Require Import Prim.Exn Model.Sentence Model.Nmea Model.Tbq Model.Assemble.
Import ListNotations.
Open Scope Z_scope.

Section Reader.
  Variable uni : Z -> list Z -> option Z.

  Definition rd_state := (asm_state * tbq_state)%type.
  Definition rd_init : rd_state := (asm_init, []).

  (* sentence = produce(line); self.__add_to_tbq(sentence): the inputs of the loop step, the tag block queue's new
     state and what it put on its own queue.  put_sentence can only raise from tb.init(), before `groups` is touched
     (Proofs/TbqProofs.v: tbq_step_raise_keeps_state), so the state after a raise is the state before. *)
  Definition rd_feed (use_tbq : bool) (tq : tbq_state) (line : bytes)
    : M sentence * option exn * tbq_state * list (list sentence) :=
    match produce line with
    | Ok s =>
        if use_tbq then
          match tbq_put uni tq s with
          | Ok (tq', outs) => (Ok s, None, tq', outs)
          | Raise e => (Ok s, Some e, tq, [])
          end
        else (Ok s, None, tq, [])
    | Raise e => (Raise e, None, tq, [])
    end.

  (* one line: (new state, AIS sentences delivered, sentence lists put on the tag block queue) or the exception that
     leaves the loop *)
  Definition rd_step (step : asm_stepfn) (use_tbq : bool) (st : rd_state) (line : bytes)
    : M (rd_state * list ais_sentence * list (list sentence)) :=
    let '(ast, tq) := st in
    let '(parsed, te, tq', touts) := rd_feed use_tbq tq line in
    match step ast parsed te with
    | Ok (ast', outs) => Ok ((ast', tq'), outs, touts)
    | Raise e => Raise e
    end.

  (* a whole line sequence: deliveries per consumed line, and the final state or the exception that ended the loop *)
  Fixpoint rd_run (step : asm_stepfn) (use_tbq : bool) (st : rd_state) (lines : list bytes)
    : list (list ais_sentence * list (list sentence)) * M rd_state :=
    match lines with
    | [] => ([], Ok st)
    | l :: rest =>
        match rd_step step use_tbq st l with
        | Raise e => ([], Raise e)
        | Ok (st', outs, touts) =>
            let '(r, fin) := rd_run step use_tbq st' rest in ((outs, touts) :: r, fin)
        end
    end.
End Reader.
