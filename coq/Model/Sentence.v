(* Parsed NMEA sentence records shared by the sentence parser (Model/Nmea.v), the reassembly loops
   (Model/Assemble.v), the tag block queue (Model/Tbq.v) and the one-shot decode (Model/DecodeApi.v).
   Only data here: the attributes of pyais.messages.NMEASentence / AISSentence / GatehouseSentence that the
   properties observe.  byte strings are [list Z] (0..255), str values are lists of code points. *)
From Coq Require Import ZArith List Bool.
Require Import Prim.Bits.
Import ListNotations.
Open Scope Z_scope.

Definition bytes := list Z.

(* datetime.datetime(year, month, day, hour, minute, second, microsecond) *)
Record timestamp := mkTs { ts_year : Z; ts_month : Z; ts_day : Z; ts_hour : Z; ts_minute : Z; ts_second : Z;
                           ts_micro : Z }.

(* attributes every NMEASentence has *)
Record nmea_common := mkCommon {
  c_raw : bytes;                 (* .raw (of an assembled message: the parts joined by LF) *)
  c_delimiter : bytes;           (* first_field[:1] *)
  c_talker_id : list Z;          (* first_field[1:3].decode('ascii') *)
  c_type : list Z;               (* first_field[3:].decode('ascii') *)
  c_checksum : Z;                (* -1 when absent / unparsable *)
  c_fill_bits : Z;
  c_is_valid : bool;
  c_data_fields : list bytes;    (* fields[1:-1] *)
  c_tag_block : option bytes     (* raw bytes of the tag block (sentence.tag_block.raw); None when absent *)
}.

Record gatehouse := mkGh {
  g_common : nmea_common;
  g_timestamp : timestamp;
  g_country : list Z;
  g_region : list Z;
  g_pss : list Z;
  g_online_data : Z
}.

Record ais_sentence := mkAis {
  a_common : nmea_common;
  a_frag_cnt : Z;
  a_frag_num : Z;
  a_seq_id : option Z;
  a_channel : list Z;
  a_payload : bytes;
  a_bits : bits;                 (* .bit_array *)
  a_ais_id : Z;
  a_wrapper : option gatehouse   (* .wrapper_msg *)
}.

Inductive sentence := SAis (a : ais_sentence) | SGatehouse (g : gatehouse).

Definition sentence_common (s : sentence) : nmea_common :=
  match s with SAis a => a_common a | SGatehouse g => g_common g end.

(* functional updates used by assembly and wrapper attachment *)
Definition set_raw_valid (c : nmea_common) (raw : bytes) (valid : bool) : nmea_common :=
  mkCommon raw (c_delimiter c) (c_talker_id c) (c_type c) (c_checksum c) (c_fill_bits c) valid
           (c_data_fields c) (c_tag_block c).
Definition set_tag_block (c : nmea_common) (tb : option bytes) : nmea_common :=
  mkCommon (c_raw c) (c_delimiter c) (c_talker_id c) (c_type c) (c_checksum c) (c_fill_bits c) (c_is_valid c)
           (c_data_fields c) tb.
Definition ais_set_wrapper (a : ais_sentence) (w : option gatehouse) : ais_sentence :=
  mkAis (a_common a) (a_frag_cnt a) (a_frag_num a) (a_seq_id a) (a_channel a) (a_payload a) (a_bits a)
        (a_ais_id a) w.
Definition ais_set_common (a : ais_sentence) (c : nmea_common) : ais_sentence :=
  mkAis c (a_frag_cnt a) (a_frag_num a) (a_seq_id a) (a_channel a) (a_payload a) (a_bits a) (a_ais_id a)
        (a_wrapper a).
(* messages[0] with raw/payload/bit_array/is_valid overwritten and ais_id recomputed from the assembled bits
   (get_int(bit_array, 0, 6); since the fix of the C04 defect) *)
Definition ais_set_assembled (a : ais_sentence) (raw payload : bytes) (b : bits) (valid : bool) : ais_sentence :=
  mkAis (set_raw_valid (a_common a) raw valid) (a_frag_cnt a) (a_frag_num a) (a_seq_id a) (a_channel a) payload b
        (get_int b 0 6 false) (a_wrapper a).
Definition sentence_set_tag_block (s : sentence) (tb : option bytes) : sentence :=
  match s with
  | SAis a => SAis (ais_set_common a (set_tag_block (a_common a) tb))
  | SGatehouse g => SGatehouse (mkGh (set_tag_block (g_common g) tb) (g_timestamp g) (g_country g) (g_region g)
                                      (g_pss g) (g_online_data g))
  end.
