(* Model of pyais/stream.py TagBlockQueue.put_sentence.  `self.groups` is an insertion-ordered association list
   keyed by group id; the function returns the new `groups` and the lists it put on the queue (in order).
   queue.Queue itself is a FIFO list and is not modelled beyond that.  No proofs here. *)
From Coq Require Import ZArith List Bool.
Require Import Prim.Exn Prim.PyText Model.Sentence Model.TagBlock.
Import ListNotations.
Open Scope Z_scope.
Open Scope exn_scope.

(* group id -> {'sentence_tot': ..., 'sentences': [...]} *)
Definition tbq_state := list (Z * (Z * list sentence)).

Fixpoint tbq_get (g : tbq_state) (gid : Z) : option (Z * list sentence) :=
  match g with
  | [] => None
  | (k, v) :: r => if k =? gid then Some v else tbq_get r gid
  end.
(* d[gid] = v : an existing key keeps its position *)
Fixpoint tbq_set (g : tbq_state) (gid : Z) (v : Z * list sentence) : tbq_state :=
  match g with
  | [] => [(gid, v)]
  | (k, v0) :: r => if k =? gid then (k, v) :: r else (k, v0) :: tbq_set r gid v
  end.
(* del d[gid] *)
Fixpoint tbq_del (g : tbq_state) (gid : Z) : tbq_state :=
  match g with
  | [] => []
  | (k, v0) :: r => if k =? gid then r else (k, v0) :: tbq_del r gid
  end.

Section Oracle.
  Variable uni : Z -> list Z -> option Z.

  Definition tbq_put (groups : tbq_state) (snt : sentence) : M (tbq_state * list (list sentence)) :=
    match c_tag_block (sentence_common snt) with
    | None => Ok (groups, [[snt]])                                   (* if not sentence.tag_block *)
    | Some raw =>
        tb <- tb_init uni raw ;;                                          (* tb.init() *)
        match tb_group tb with
        | None => Ok (groups, [[snt]])                               (* if not tb.group *)
        | Some (sentence_num, sentence_tot, group_id) =>
            if sentence_tot =? 1 then Ok (groups, [[snt]])
            else if sentence_num =? 1 then
              Ok (tbq_set groups group_id (sentence_tot, [snt]), [])
            else
              match tbq_get groups group_id with
              | None => Ok (groups, [])                                   (* first sentence of the group is missing *)
              | Some (tot0, sentences) =>
                  let sentences' := sentences ++ [snt] in            (* .append(sentence) *)
                  let groups' := tbq_set groups group_id (tot0, sentences') in
                  if negb (sentence_tot =? Z.of_nat (length sentences')) then Ok (groups', [])
                  else Ok (tbq_del groups' group_id, [sentences'])
              end
        end
    end.

  (* what a caller observes when it feeds sentences one by one and drains the queue after each: a sentence whose
     put_sentence raises is skipped (the reader loops catch the library exception; `groups` is untouched because
     init() runs before any update) *)
  Definition tbq_step (groups : tbq_state) (s : sentence) : tbq_state * list (list sentence) :=
    match tbq_put groups s with
    | Ok r => r
    | Raise _ => (groups, [])
    end.

  Fixpoint tbq_run_from (groups : tbq_state) (ss : list sentence) : list (list (list sentence)) :=
    match ss with
    | [] => []
    | s :: r => let '(g', out) := tbq_step groups s in out :: tbq_run_from g' r
    end.
  Definition tbq_run (ss : list sentence) : list (list (list sentence)) := tbq_run_from [] ss.

  (* the group triple the queue sees for a sentence *)
  Definition tbq_sentence_group (s : sentence) : M (option (Z * Z * Z)) :=
    match c_tag_block (sentence_common s) with
    | None => Ok None
    | Some raw => tb <- tb_init uni raw ;; Ok (tb_group tb)
    end.
End Oracle.
