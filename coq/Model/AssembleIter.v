(* AISSentence.assemble_from_iterable (pyais/messages.py), shared by the reader loops (Model/Assemble.v) and the
   one-shot decode (Model/DecodeApi.v).  No proofs here. *)
From Coq Require Import ZArith List Bool.
Require Import Prim.Exn Prim.Bits Model.Sentence.
Import ListNotations.
Open Scope Z_scope.

(* sorted(messages, key=lambda m: m.frag_num): Python's sort is stable -> stable insertion sort *)
Fixpoint insert_by_frag (m : ais_sentence) (l : list ais_sentence) : list ais_sentence :=
  match l with
  | [] => [m]
  | x :: r => if a_frag_num m <? a_frag_num x then m :: x :: r else x :: insert_by_frag m r
  end.
(* inserting from the right keeps equal keys in their original order *)
Definition sort_by_frag (l : list ais_sentence) : list ais_sentence := fold_right insert_by_frag [] l.

Definition LF : Z := 10.

(* raw joined by b'\n'; payload, bits concatenated; validity conjoined -- in fragment-number order *)
Fixpoint join_raw (l : list ais_sentence) : bytes :=
  match l with
  | [] => []
  | [m] => c_raw (a_common m)
  | m :: r => c_raw (a_common m) ++ LF :: join_raw r
  end.

Definition assemble_from_iterable (messages : list ais_sentence) : M ais_sentence :=
  let sorted := sort_by_frag messages in
  let raw := join_raw sorted in
  let data := flat_map a_payload sorted in
  let bit_array := flat_map a_bits sorted in
  let is_valid := forallb (fun m => c_is_valid (a_common m)) sorted in
  match messages with
  | [] => Raise (Py IndexError)                       (* messages[0] on an empty sequence *)
  | first :: _ => Ok (ais_set_assembled first raw data bit_array is_valid)
  end.
