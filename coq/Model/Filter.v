(* pyais/filter.py, statement by statement (the code AFTER the C19 repairs: the two geographic filters test
   `getattr(msg, 'lat', None) is not None and getattr(msg, 'lon', None) is not None` where the unchanged code
   tested `hasattr(msg, 'lat')`; NoneFilter reads the listed attributes through `_attr_or_none`, which turns the
   TypeError / ValueError of a computed attribute that cannot be computed for the message into None, where the
   unchanged code called `getattr(msg, attr, None)` directly; the unchanged bodies are kept below as
   [*_unrepaired] for the record).

   Reading an attribute is an effect (Prim/PyObj.v): the getter of a computed attribute may raise.  Every read in
   this file is therefore in the exception monad, in Python's evaluation order, with `and` / all() short-circuits.

   Generators are modelled by their observable behaviour: the finite sequence of yielded messages followed by
   either normal exhaustion or the exception that killed the generator ([mgen]).  Laziness of nested generators
   is then a fact about *where* the exception sits in that sequence, and it is preserved by construction: each
   filter_data loop pulls one message at a time from its source and dies on the first exception.

   The great-circle distance is NOT modelled: [dist] is a Section variable.  What the model fixes is the
   decision rule around it.  No proofs in this file. *)
From Coq Require Import ZArith List Bool String.
Require Import Prim.Exn Prim.Rat Prim.PyObj.
Import ListNotations.
Open Scope Z_scope.
Open Scope exn_scope.

Definition lat_lon := (ratio * ratio)%type.           (* LAT_LON = Tuple[float, float] *)

(* ---- generators ------------------------------------------------------------------------------------- *)
Inductive mgen :=
| GEnd                            (* StopIteration *)
| GYield (m : pymsg) (rest : mgen)   (* yields m, then continues *)
| GRaise (e : exn).               (* an exception propagates out of next() *)

Fixpoint mgen_of_list (l : list pymsg) : mgen :=
  match l with [] => GEnd | m :: r => GYield m (mgen_of_list r) end.

(* what `for m in g` observes: the messages yielded and how the iteration ended *)
Fixpoint mgen_yielded (g : mgen) : list pymsg :=
  match g with GEnd => [] | GYield m r => m :: mgen_yielded r | GRaise _ => [] end.
Fixpoint mgen_end (g : mgen) : option exn :=
  match g with GEnd => None | GYield _ r => mgen_end r | GRaise e => Some e end.

(* list(g) *)
Definition mgen_list (g : mgen) : M (list pymsg) :=
  match mgen_end g with None => Ok (mgen_yielded g) | Some e => Raise e end.

(* The common shape of the five filter_data bodies:
     for msg in data:
         if <the message is not wanted>: continue
         yield msg
   [body msg] = Ok true : yield; Ok false : continue; Raise e : the generator dies with e. *)
Fixpoint mgen_loop (body : pymsg -> M bool) (data : mgen) : mgen :=
  match data with
  | GEnd => GEnd
  | GRaise e => GRaise e
  | GYield m rest =>
    match body m with
    | Ok true => GYield m (mgen_loop body rest)
    | Ok false => mgen_loop body rest
    | Raise e => GRaise e
    end
  end.

(* ---- the filter classes: constructor arguments ------------------------------------------------------- *)
Inductive filter_cfg :=
| AttributeFilter (ff : pymsg -> M bool)                 (* bool(ff(msg)); a user function may raise *)
| NoneFilter (attrs : list string)
| MessageTypeFilter (types : list Z)
| DistanceFilter (ref_lat_lon : lat_lon) (distance_km : ratio)
| GridFilter (lat_min lon_min lat_max lon_max : ratio).

(* def is_in_grid(lat, lon, lat_min, lon_min, lat_max, lon_max):
       return lat_min <= lat <= lat_max and lon_min <= lon <= lon_max
   Chained comparisons and `and` evaluate left to right and stop at the first False. *)
Definition is_in_grid (lat lon : aval) (lat_min lon_min lat_max lon_max : ratio) : M bool :=
  c1 <- py_le (ANum lat_min) lat ;;
  if negb c1 then Ok false else
  c2 <- py_le lat (ANum lat_max) ;;
  if negb c2 then Ok false else
  c3 <- py_le (ANum lon_min) lon ;;
  if negb c3 then Ok false else
  py_le lon (ANum lon_max).

Section WithDistance.
  (* haversine(latLon1, latLon2) on real arguments: libm in binary64, not modelled *)
  Variable dist : lat_lon -> lat_lon -> ratio.

  (* def haversine(latLon1, latLon2): ... map(math.radians, [latLon1[0], latLon1[1], latLon2[0], latLon2[1]]) ...
     The reference point is a filter parameter (numbers); the message coordinates go through math.radians,
     which raises TypeError for anything that is not a real number. *)
  Definition haversine (latLon1 : lat_lon) (latLon2 : aval * aval) : M ratio :=
    lat2 <- py_as_real (fst latLon2) ;;
    lon2 <- py_as_real (snd latLon2) ;;
    Ok (dist latLon1 (lat2, lon2)).

  (* AttributeFilter.filter_data:   yield from filter(self.ff, data) *)
  Definition attribute_body (ff : pymsg -> M bool) (m : pymsg) : M bool := ff m.

  (* def _attr_or_none(msg, attr):
         try:
             return getattr(msg, attr, None)
         except (TypeError, ValueError):
             return None
     getattr with a default absorbs AttributeError only; the handler absorbs TypeError and ValueError (and their
     subclasses); any other exception of a getter propagates. *)
  Definition attr_or_none (m : pymsg) (attr : string) : M aval :=
    try_except (py_getattr_d m attr ANone) [HPy TypeError; HPy ValueError] (fun _ => Ok ANone).

  (* NoneFilter.filter_data (repaired):
       for msg in data:
           if all(_attr_or_none(msg, attr) is not None for attr in self.attrs):
               yield msg
     all() pulls the generator expression left to right and stops at the first falsy element: an attribute after
     the first None one is not read (so a getter that would raise there is not reached); an exception that
     _attr_or_none lets through propagates out of all() and kills the generator. *)
  Fixpoint none_all (m : pymsg) (attrs : list string) : M bool :=
    match attrs with
    | [] => Ok true
    | attr :: rest =>
      v <- attr_or_none m attr ;;
      if py_is_not_none v then none_all m rest else Ok false
    end.
  Definition none_body (attrs : list string) (m : pymsg) : M bool := none_all m attrs.

  (* MessageTypeFilter.filter_data:
       for msg in data:
           if msg.msg_type not in self.types:
               continue
           yield msg *)
  Definition message_type_body (types : list Z) (m : pymsg) : M bool :=
    if negb (existsb (Z.eqb (pm_type m)) types) then Ok false else Ok true.

  (* getattr(msg, 'lat', None) is not None and getattr(msg, 'lon', None) is not None
     (`and` evaluates its right operand only when the left one is true) *)
  Definition has_lat_lon (m : pymsg) : M bool :=
    lat <- py_getattr_d m "lat" ANone ;;
    if py_is_not_none lat then
      lon <- py_getattr_d m "lon" ANone ;;
      Ok (py_is_not_none lon)
    else Ok false.

  (* DistanceFilter.filter_data (repaired):
       for msg in data:
           if getattr(msg, 'lat', None) is not None and getattr(msg, 'lon', None) is not None:
               if haversine(self.ref_lat_lon, (msg.lat, msg.lon)) >= self.distance_km:
                   continue
           yield msg *)
  Definition distance_body (ref_lat_lon : lat_lon) (distance_km : ratio) (m : pymsg) : M bool :=
    c <- has_lat_lon m ;;
    if c then
      lat <- py_getattr m "lat" ;;
      lon <- py_getattr m "lon" ;;
      h <- haversine ref_lat_lon (lat, lon) ;;
      if ratio_geb h distance_km then Ok false else Ok true
    else Ok true.

  (* GridFilter.filter_data (repaired):
       for msg in data:
           if getattr(msg, 'lat', None) is not None and getattr(msg, 'lon', None) is not None:
               if not is_in_grid(msg.lat, msg.lon, self.lat_min, self.lon_min, self.lat_max, self.lon_max):
                   continue
           yield msg *)
  Definition grid_body (lat_min lon_min lat_max lon_max : ratio) (m : pymsg) : M bool :=
    c <- has_lat_lon m ;;
    if c then
      lat <- py_getattr m "lat" ;;
      lon <- py_getattr m "lon" ;;
      g <- is_in_grid lat lon lat_min lon_min lat_max lon_max ;;
      if negb g then Ok false else Ok true
    else Ok true.

  (* the bodies of the unchanged code (before the fix: commits), for the record and for [C19_unrepaired_raises] /
     [C19_nonefilter_unrepaired_raises]:
       if all(getattr(msg, attr, None) is not None for attr in self.attrs):      -- NoneFilter: absorbs AttributeError only *)
  Fixpoint none_all_unrepaired (m : pymsg) (attrs : list string) : M bool :=
    match attrs with
    | [] => Ok true
    | attr :: rest =>
      v <- py_getattr_d m attr ANone ;;
      if py_is_not_none v then none_all_unrepaired m rest else Ok false
    end.
  Definition none_body_unrepaired (attrs : list string) (m : pymsg) : M bool := none_all_unrepaired m attrs.
  (*   if hasattr(msg, 'lat'):                                                    -- DistanceFilter / GridFilter
           if haversine(self.ref_lat_lon, (msg.lat, msg.lon)) >= self.distance_km: continue *)
  Definition distance_body_unrepaired (ref_lat_lon : lat_lon) (distance_km : ratio) (m : pymsg) : M bool :=
    c <- py_hasattr m "lat" ;;
    if c then
      lat <- py_getattr m "lat" ;;
      lon <- py_getattr m "lon" ;;
      h <- haversine ref_lat_lon (lat, lon) ;;
      if ratio_geb h distance_km then Ok false else Ok true
    else Ok true.
  Definition grid_body_unrepaired (lat_min lon_min lat_max lon_max : ratio) (m : pymsg) : M bool :=
    c <- py_hasattr m "lat" ;;
    if c then
      lat <- py_getattr m "lat" ;;
      lon <- py_getattr m "lon" ;;
      g <- is_in_grid lat lon lat_min lon_min lat_max lon_max ;;
      if negb g then Ok false else Ok true
    else Ok true.

  (* does this filter let the message through?  (the loop body of its filter_data) *)
  Definition filter_keep (f : filter_cfg) (m : pymsg) : M bool :=
    match f with
    | AttributeFilter ff => attribute_body ff m
    | NoneFilter attrs => none_body attrs m
    | MessageTypeFilter types => message_type_body types m
    | DistanceFilter ref d => distance_body ref d m
    | GridFilter a b c d => grid_body a b c d m
    end.

  (* <Class>.filter_data(self, data) *)
  Definition filter_data (f : filter_cfg) (data : mgen) : mgen := mgen_loop (filter_keep f) data.

  (* ---- filter objects and the chain ------------------------------------------------------------------ *)
  (* a Filter instance: its own parameters and self.next_filter *)
  Inductive filter_obj := FObj (cfg : filter_cfg) (next_filter : option filter_obj).

  (* Filter.filter(self, data):
         data = self.filter_data(data)
         if self.next_filter:
             return self.next_filter.filter(data)
         return data *)
  Fixpoint filter_filter (self : filter_obj) (data : mgen) : mgen :=
    match self with
    | FObj cfg next_filter =>
      let data := filter_data cfg data in
      match next_filter with
      | Some nf => filter_filter nf data
      | None => data
      end
    end.

  (* FilterChain.__init__(self, filters):
         if not filters: raise ValueError('At least one filter required')
         for current, next in zip(filters[:-1], filters[1:]):
             current.set_next(next)
         self.filters = filters
         self.start = filters[0]
     The filters are fresh, pairwise distinct objects whose next_filter is None (a filter object belongs to one
     chain: assumption of the model, see NOTES_filter.md).  After the loop filters[i].next_filter is
     filters[i+1] for i < n-1 and the last one still has None; [filter_link] is that final heap as a value. *)
  Fixpoint filter_link (f : filter_cfg) (rest : list filter_cfg) : filter_obj :=
    match rest with
    | [] => FObj f None
    | g :: rest' => FObj f (Some (filter_link g rest'))
    end.

  Record filter_chain := mkChain { fc_filters : list filter_cfg; fc_start : filter_obj }.

  Definition filter_chain_init (filters : list filter_cfg) : M filter_chain :=
    match filters with
    | [] => Raise (Py ValueError)
    | f :: rest => Ok (mkChain filters (filter_link f rest))
    end.

  (* the generator expression  (x.decode() for x in stream)  over a stream of sentences of any type S *)
  Fixpoint filter_decode_gen {S : Type} (decode : S -> M pymsg) (stream : list S) : mgen :=
    match stream with
    | [] => GEnd
    | x :: rest =>
      match decode x with
      | Ok m => GYield m (filter_decode_gen decode rest)
      | Raise e => GRaise e
      end
    end.

  (* FilterChain.filter(self, stream):   yield from self.start.filter(x.decode() for x in stream) *)
  Definition filter_chain_filter {S : Type} (self : filter_chain) (decode : S -> M pymsg) (stream : list S) : mgen :=
    filter_filter (fc_start self) (filter_decode_gen decode stream).

  (* FilterChain(filters).filter(stream), as one expression *)
  Definition filter_chain_run {S : Type} (filters : list filter_cfg) (decode : S -> M pymsg) (stream : list S) : M mgen :=
    c <- filter_chain_init filters ;;
    Ok (filter_chain_filter c decode stream).
End WithDistance.

(* ---- a recorded witness --------------------------------------------------------------------------------- *)
(* The type 18 report with payload bits 010010 followed by 100 zeros (cut before the radio field), as pyais decodes
   it and as the harness describes it to this model: every field of asdict(), then the computed attributes of
   MessageType18 in reflection order.  The three properties of CommunicationStateMixin cannot be computed (radio
   is None): reading them raises TypeError.  The harness re-derives this description from the implementation on
   every run (driver command c19witness) and reports a difference. *)
Definition filter_truncated_type18 : pymsg :=
  let z := Ok (ANum (ratio_of_Z 0)) in
  let n := @Ok aval ANone in
  let x := @Raise aval (Py TypeError) in
  mkPyMsg 18
    [("msg_type", Ok (ANum (ratio_of_Z 18))); ("repeat", z); ("mmsi", z); ("reserved_1", z); ("speed", z);
     ("accuracy", z); ("lon", z); ("lat", z); ("course", n); ("heading", n); ("second", n); ("reserved_2", n);
     ("cs", n); ("display", n); ("dsc", n); ("band", n); ("msg22", n); ("assigned", n); ("raim", n); ("radio", n);
     ("MAX_COMM_STATE_VALUE", Ok (ANum (ratio_of_Z 524287))); ("SOTDMA_ITDMA_TYPES", Ok (AOther true));
     ("SOTDMA_TYPES", Ok (AOther true)); ("communication_state_raw", x); ("is_itdma", x); ("is_sotdma", x)]%string.

(* ---- user predicates used by the correspondence check ------------------------------------------------- *)
(* The theorems hold for every [ff : msg -> M bool].  The harness needs concrete ones on both sides; each
   constructor is one Python lambda (written out in tools/props/C19.py). *)
Inductive upred :=
| UConst (b : bool)                 (* lambda m: b *)
| UNotNone (name : string)          (* lambda m: getattr(m, name, None) is not None   -- a getter may raise *)
| UHas (name : string)              (* lambda m: hasattr(m, name)                     -- a getter may raise *)
| UTruthy (name : string)           (* lambda m: getattr(m, name, None)         -- 0 and 0.0 are falsy; may raise *)
| ULt (name : string) (q : ratio)     (* lambda m: getattr(m, name) < q           -- may raise *)
| UTypeEq (t : Z).                  (* lambda m: m.msg_type == t *)

Definition upred_eval (p : upred) (m : pymsg) : M bool :=
  match p with
  | UConst b => Ok b
  | UNotNone name => v <- py_getattr_d m name ANone ;; Ok (py_is_not_none v)
  | UHas name => py_hasattr m name
  | UTruthy name => v <- py_getattr_d m name ANone ;; Ok (py_truthy v)
  | ULt name q => v <- py_getattr m name ;; py_lt v (ANum q)
  | UTypeEq t => Ok (pm_type m =? t)
  end.
