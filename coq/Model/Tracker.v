(* Model of pyais/tracker.py (AISTracker, AISTrack, msg_to_track, update_track, poplast, AISUpdateBroker),
   statement by statement, as total functions.  No proofs here.

   Representation
   * `AISTracker._tracks` (dict mmsi -> AISTrack) is an insertion-ordered association list (Prim/IntDict.v).
   * An AISTrack is a record (mmsi, the values of the other attributes in the order of `dataclasses.fields(AISTrack)`
     without `mmsi` and `last_updated`, last_updated).  Attribute values are opaque: the code only tests them against
     None and copies them, so the model is polymorphic in the value type V (the harness passes tokens).
   * A decoded message is (mmsi, for every such attribute: MAbsent = `hasattr` is false, MPresent v = `getattr`
     returned v, where v may be None).  The FIELDS loops also visit `mmsi` (always present, re-assigns the same value)
     and `last_updated` (no message class has such an attribute; the harness checks that by reflection).
   * `ttl_in_seconds` and `stream_is_ordered` are public attributes: a history may assign a new TTL at any time
     (`OpSetTtl`) and may switch an ordered tracker to unordered (`OpUnordered`); every method reads them afresh.
   * Time is an explicit argument `now` of every operation that reads the clock (`time.time()` is called by
     `AISTrack.last_updated`'s default factory and by `cleanup`).  Timestamps and the TTL are integers in one common
     unit (the harness uses quarter seconds, on which binary64 arithmetic is exact).
   * Exceptions are values (Prim/Exn.v).  A method returns the state it leaves behind *also* when it raises, so that
     "a rejected update leaves all state unchanged" is a statement about the model and not a convention.
   * Every `self._broker.propagate(track, event)` is recorded as a call (event, track).  This first part (`trk_*`)
     is the model for subscriber callbacks that RETURN NORMALLY: the deliveries to the registered callbacks are then
     `trk_deliver` of the calls (the subscriber list does not change during an operation).  The second part of this
     file (`trkc_*`, "callbacks that may raise") is the general model: every callback has a behaviour (returns / raises
     an exception value), `propagate` stops at the first callback that raises, `pop_track` swallows a KeyError,
     everything else escapes through insert_track / update_track / insert_or_update / cleanup / update as in the
     Python.  With quiet callbacks the general model reduces to the first part (Proofs/TrackerCbProofs.v
     `trkc_step_quiet`); C12 is stated over the first part, C13-C15 over the general one.  Callbacks that call back
     into the tracker (re-entrancy) are outside both.

   The model follows the code AFTER the three repairs
     fix: cleanup() scans the tracks oldest first in unordered mode as well          (C13)
     fix: n_latest_tracks() returns the last n tracks in ordered mode                 (C14)
     fix: keep oldest_timestamp a lower bound of the tracks when a subscriber callback raises   (C13)
          (insert_or_update lowers the cache BEFORE insert_track; cleanup assigns it AFTER the pop loop; the bodies
          before that repair are kept as `*_unrepaired` at the end of this file) *)
From Coq Require Import List Bool ZArith.
Require Import Prim.Exn Prim.IntDict.
Import ListNotations.
Open Scope Z_scope.

(* class AISTrackEvent(Enum) *)
Inductive trk_event := CREATED | UPDATED | DELETED.

Definition trk_event_eqb (a b : trk_event) : bool :=
  match a, b with
  | CREATED, CREATED | UPDATED, UPDATED | DELETED, DELETED => true
  | _, _ => false
  end.

Section Tracker.
  Context {V : Type}.

  (* @dataclass AISTrack *)
  Record trk_track := mkTrack { tr_mmsi : Z; tr_attrs : list (option V); tr_lu : Z }.

  Inductive trk_mattr := MAbsent | MPresent (v : option V).
  Record trk_msg := mkMsg { m_mmsi : Z; m_attrs : list trk_mattr }.

  (* ------------------------------------------------------------------------------------------ AISUpdateBroker *)
  (* self._callbacks : list of (event, callback); a callback is identified by a number *)
  Definition trk_broker := list (trk_event * Z).

  (* attach: `if callback not in self._callbacks` compares a callable with (event, callback) tuples, which is never
     equal, so the pair is always appended. *)
  Definition brk_attach (b : trk_broker) (ev : trk_event) (cb : Z) : trk_broker := b ++ [(ev, cb)].

  (* detach: list.remove((event, callback)) removes the first equal pair; ValueError is swallowed *)
  Fixpoint brk_detach (b : trk_broker) (ev : trk_event) (cb : Z) : trk_broker :=
    match b with
    | [] => []
    | (e, c) :: r => if trk_event_eqb ev e && (cb =? c) then r else (e, c) :: brk_detach r ev cb
    end.

  (* propagate: for destination, callback in self._callbacks: if event == destination: callback(track) *)
  Fixpoint brk_propagate (b : trk_broker) (track : trk_track) (ev : trk_event) : list (Z * trk_event * trk_track) :=
    match b with
    | [] => []
    | (destination, callback) :: r =>
      if trk_event_eqb ev destination then (callback, ev, track) :: brk_propagate r track ev
      else brk_propagate r track ev
    end.

  Definition trk_call := (trk_event * trk_track)%type.
  Definition trk_deliver (b : trk_broker) (calls : list trk_call) : list (Z * trk_event * trk_track) :=
    flat_map (fun c => brk_propagate b (snd c) (fst c)) calls.

  (* ------------------------------------------------------------------------------------------ msg_to_track *)
  (* for field in FIELDS: if not hasattr(msg, field.name): continue; val = getattr(..); if val is not None: setattr *)
  Fixpoint trk_set_fields (cur : list (option V)) (ms : list trk_mattr) : list (option V) :=
    match cur with
    | [] => []
    | c :: cr =>
      match ms with
      | [] => cur
      | a :: ar =>
        (match a with
         | MAbsent => c
         | MPresent val => match val with Some v => Some v | None => c end
         end) :: trk_set_fields cr ar
      end
    end.

  Definition trk_msg_to_track (nattrs : nat) (m : trk_msg) (ts_epoch_ms : option Z) (now : Z) : trk_track :=
    let track :=
      match ts_epoch_ms with
      | None => mkTrack (m_mmsi m) (repeat None nattrs) now           (* default_factory=now *)
      | Some ts => mkTrack (m_mmsi m) (repeat None nattrs) ts
      end in
    mkTrack (m_mmsi m) (trk_set_fields (tr_attrs track) (m_attrs m)) (tr_lu track).

  (* ------------------------------------------------------------------------------------------ update_track *)
  (* for field in FIELDS: new_val = getattr(new, ..); if new_val is not None: setattr(old, .., new_val)
     (mmsi and last_updated of `new` are never None) *)
  Fixpoint trk_merge_fields (old new : list (option V)) : list (option V) :=
    match old with
    | [] => []
    | o :: orest =>
      match new with
      | [] => old
      | n :: nrest => (match n with Some v => Some v | None => o end) :: trk_merge_fields orest nrest
      end
    end.

  Definition trk_update_track (old new : trk_track) : trk_track :=
    mkTrack (tr_mmsi new) (trk_merge_fields (tr_attrs old) (tr_attrs new)) (tr_lu new).

  (* ------------------------------------------------------------------------------------------ AISTracker *)
  Record trk_tracker := mkTracker {
    t_tracks : idict trk_track;          (* self._tracks *)
    t_ttl : option Z;                    (* self.ttl_in_seconds *)
    t_ordered : bool;                    (* self.stream_is_ordered *)
    t_oldest : option Z;                 (* self.oldest_timestamp *)
    t_broker : trk_broker }.             (* self._broker._callbacks *)

  Definition trk_init (ttl_in_seconds : option Z) (stream_is_ordered : bool) : trk_tracker :=
    mkTracker [] ttl_in_seconds stream_is_ordered None [].

  Definition with_tracks (st : trk_tracker) (d : idict trk_track) : trk_tracker :=
    mkTracker d (t_ttl st) (t_ordered st) (t_oldest st) (t_broker st).
  Definition with_oldest (st : trk_tracker) (o : option Z) : trk_tracker :=
    mkTracker (t_tracks st) (t_ttl st) (t_ordered st) o (t_broker st).
  Definition with_broker (st : trk_tracker) (b : trk_broker) : trk_tracker :=
    mkTracker (t_tracks st) (t_ttl st) (t_ordered st) (t_oldest st) b.
  (* assignments to the public attributes `ttl_in_seconds` / `stream_is_ordered` *)
  Definition with_ttl (st : trk_tracker) (ttl : option Z) : trk_tracker :=
    mkTracker (t_tracks st) ttl (t_ordered st) (t_oldest st) (t_broker st).
  Definition with_ordered (st : trk_tracker) (o : bool) : trk_tracker :=
    mkTracker (t_tracks st) (t_ttl st) o (t_oldest st) (t_broker st).

  (* poplast: key, latest = dictionary.popitem(); dictionary[key] = latest; return latest *)
  Definition trk_poplast (d : idict trk_track) : option (trk_track * idict trk_track) :=
    match idict_popitem d with
    | None => None                                   (* KeyError: 'popitem(): dictionary is empty' *)
    | Some (key, latest, d') => Some (latest, idict_set d' key latest)
    end.

  (* __set_oldest_timestamp *)
  Definition trk_set_oldest_timestamp (st : trk_tracker) (ts : Z) : trk_tracker :=
    match t_oldest st with
    | None => with_oldest st (Some ts)
    | Some o => with_oldest st (Some (Z.min o ts))
    end.

  (* sorted(values, key=lambda track: track.last_updated): stable, ascending *)
  Fixpoint trk_insert_sorted (x : trk_track) (l : list trk_track) : list trk_track :=
    match l with
    | [] => [x]
    | y :: r => if tr_lu x <=? tr_lu y then x :: l else y :: trk_insert_sorted x r
    end.
  Fixpoint trk_sorted (l : list trk_track) : list trk_track :=
    match l with
    | [] => []
    | x :: r => trk_insert_sorted x (trk_sorted r)
    end.

  (* _tracks_ordered_after_insertion *)
  Definition trk_tracks_ordered_after_insertion (st : trk_tracker) : list trk_track :=
    if t_ordered st then idict_values (t_tracks st)
    else rev (trk_sorted (idict_values (t_tracks st))).

  (* tracks (property), get_track *)
  Definition trk_tracks (st : trk_tracker) : list trk_track := idict_values (t_tracks st).
  Definition trk_get_track (st : trk_tracker) (mmsi : Z) : option trk_track := idict_get (t_tracks st) mmsi.

  (* ensure_timestamp_constraints: returns the state left behind and the exception, if any *)
  Definition trk_ensure_timestamp_constraints (st : trk_tracker) (ts_epoch_ms : Z) : trk_tracker * option exn :=
    if negb (t_ordered st) || (match t_tracks st with [] => true | _ => false end) then (st, None)
    else
      match trk_poplast (t_tracks st) with
      | None => (st, Some (Py KeyError))
      | Some (latest, d) =>
        let st1 := with_tracks st d in
        if ts_epoch_ms <? tr_lu latest then (st1, Some (Py ValueError)) else (st1, None)
      end.

  (* pop_track: (state, propagate calls, returned track) *)
  Definition trk_pop_track (st : trk_tracker) (mmsi : Z) : trk_tracker * list trk_call * option trk_track :=
    match idict_get (t_tracks st) mmsi with
    | None => (st, [], None)                                         (* except KeyError: return None *)
    | Some track => (with_tracks st (idict_del (t_tracks st) mmsi), [(DELETED, track)], Some track)
    end.

  (* insert_track *)
  Definition trk_insert_track (st : trk_tracker) (mmsi : Z) (new : trk_track) : trk_tracker * list trk_call :=
    (with_tracks st (idict_set (t_tracks st) mmsi new), [(CREATED, new)]).

  (* AISTracker.update_track *)
  Definition trk_update_track_m (st : trk_tracker) (mmsi : Z) (new : trk_track)
    : trk_tracker * list trk_call * option exn :=
    match idict_get (t_tracks st) mmsi with
    | None => (st, [], Some (Py KeyError))
    | Some old =>
      if tr_lu new <? tr_lu old then (st, [], Some (Py ValueError))
      else
        let updated := trk_update_track old new in
        let d := idict_set (idict_del (t_tracks st) mmsi) mmsi updated in
        (with_tracks st d, [(UPDATED, updated)], None)
    end.

  (* insert_or_update *)
  Definition trk_insert_or_update (st : trk_tracker) (mmsi : Z) (track : trk_track)
    : trk_tracker * list trk_call * option exn :=
    if idict_mem (t_tracks st) mmsi then
      match trk_update_track_m st mmsi track with
      | (st1, calls, Some e) => (st1, calls, Some e)
      | (st1, calls, None) => (trk_set_oldest_timestamp st1 (tr_lu track), calls, None)
      end
    else
      let st0 := trk_set_oldest_timestamp st (tr_lu track) in         (* before the subscribers are called *)
      let '(st1, calls) := trk_insert_track st0 mmsi track in
      (trk_set_oldest_timestamp st1 (tr_lu track), calls, None).

  (* to_be_deleted = set(); .add(mmsi) *)
  Definition trk_set_add (x : Z) (s : list Z) : list Z := if existsb (Z.eqb x) s then s else s ++ [x].

  (* the scan of cleanup():
       oldest = self.oldest_timestamp
       for track in tracks:
           if (t - track.last_updated) < self.ttl_in_seconds: oldest = track.last_updated; break
           to_be_deleted.add(track.mmsi)                                                                        *)
  Fixpoint trk_cleanup_scan (t ttl : Z) (tracks : list trk_track) (oldest : option Z) (to_be_deleted : list Z)
    : option Z * list Z :=
    match tracks with
    | [] => (oldest, to_be_deleted)
    | track :: r =>
      if (t - tr_lu track) <? ttl then (Some (tr_lu track), to_be_deleted)
      else trk_cleanup_scan t ttl r oldest (trk_set_add (tr_mmsi track) to_be_deleted)
    end.

  (* for mmsi in to_be_deleted: self.pop_track(mmsi) *)
  Fixpoint trk_pop_all (st : trk_tracker) (ms : list Z) : trk_tracker * list trk_call :=
    match ms with
    | [] => (st, [])
    | m :: r =>
      let '(st1, c1, _) := trk_pop_track st m in
      let '(st2, c2) := trk_pop_all st1 r in
      (st2, c1 ++ c2)
    end.

  (* cleanup (after `fix:` C13: the scan runs oldest first in both modes; `oldest` is a local variable during the
     scan and `self.oldest_timestamp = oldest` is the last statement) *)
  Definition trk_cleanup (st : trk_tracker) (now : Z) : trk_tracker * list trk_call :=
    match t_ttl st with
    | None => (st, [])
    | Some ttl =>
      match t_oldest st with
      | None => (st, [])
      | Some oldest =>
        let t := now in
        if (t - ttl) <? oldest then (st, [])
        else
          let tracks :=
            if t_ordered st then idict_values (t_tracks st)
            else trk_sorted (idict_values (t_tracks st)) in
          let '(oldest', to_be_deleted) := trk_cleanup_scan t ttl tracks (t_oldest st) [] in
          let '(st1, calls) := trk_pop_all st to_be_deleted in
          (with_oldest st1 oldest', calls)
      end
    end.

  (* update(msg, ts_epoch_ms) with decoded = msg.decode() given as data: (state, calls, exception) *)
  Definition trk_update (nattrs : nat) (st : trk_tracker) (now : Z) (decoded : trk_msg) (ts_epoch_ms : option Z)
    : trk_tracker * list trk_call * option exn :=
    let mmsi := m_mmsi decoded in
    let track := trk_msg_to_track nattrs decoded ts_epoch_ms now in
    match trk_ensure_timestamp_constraints st (tr_lu track) with
    | (st1, Some e) => (st1, [], Some e)
    | (st1, None) =>
      match trk_insert_or_update st1 mmsi track with
      | (st2, calls, Some e) => (st2, calls, Some e)
      | (st2, calls, None) =>
        let '(st3, calls3) := trk_cleanup st2 now in
        (st3, calls ++ calls3, None)
      end
    end.

  (* lst[k:] *)
  Definition py_slice_from {A} (l : list A) (k : Z) : list A :=
    let len := Z.of_nat (length l) in
    let k' := if k <? 0 then Z.max (len + k) 0 else k in
    skipn (Z.to_nat k') l.

  (* for i, track in enumerate(tracks): if n <= i: break; n_latest.append(track) *)
  Fixpoint trk_enum_take (n i : Z) (tracks : list trk_track) : list trk_track :=
    match tracks with
    | [] => []
    | track :: r => if n <=? i then [] else track :: trk_enum_take n (i + 1) r
    end.

  (* n_latest_tracks (after `fix:` C14: ordered mode returns the last n of the insertion order) *)
  Definition trk_n_latest_tracks (st : trk_tracker) (n : Z) : list trk_track :=
    let len := Z.of_nat (length (t_tracks st)) in
    let n := Z.min n len in
    if t_ordered st then py_slice_from (idict_values (t_tracks st)) (len - n)
    else trk_enum_take n 0 (trk_tracks_ordered_after_insertion st).

  (* ------------------------------------------------------------------------------------------ histories *)
  Inductive trk_op :=
  | OpUpdate (now : Z) (decoded : trk_msg) (ts_epoch_ms : option Z)
  | OpCleanup (now : Z)
  | OpPop (mmsi : Z)
  | OpAttach (ev : trk_event) (cb : Z)       (* register_callback *)
  | OpDetach (ev : trk_event) (cb : Z)       (* remove_callback *)
  | OpInsertOrUpdate (now : Z) (decoded : trk_msg) (ts_epoch_ms : option Z)
      (* tracker.insert_or_update(int(decoded.mmsi), msg_to_track(decoded, ts_epoch_ms)) -- the public method below update():
         no ordering check, no cleanup().  In ordered mode the caller is responsible for non-decreasing timestamps on
         this route (otherwise the unchanged code itself leaves the table unsorted); the theorems assume it (`op_ok`). *)
  | OpSetTtl (ttl : option Z)                (* tracker.ttl_in_seconds = ttl   (a public attribute; cleanup() reads it afresh) *)
  | OpUnordered.                             (* tracker.stream_is_ordered = False   (only this direction: a table that was kept
                                                sorted is a legal unordered table; switching an unordered tracker to ordered
                                                would assert an order nobody enforced and is outside the model) *)

  Record trk_result := mkResult {
    r_state : trk_tracker;
    r_calls : list trk_call;                 (* propagate calls, in order *)
    r_exn : option exn }.

  Definition trk_step (nattrs : nat) (st : trk_tracker) (op : trk_op) : trk_result :=
    match op with
    | OpUpdate now decoded ts =>
      let '(st1, calls, e) := trk_update nattrs st now decoded ts in mkResult st1 calls e
    | OpCleanup now =>
      let '(st1, calls) := trk_cleanup st now in mkResult st1 calls None
    | OpPop mmsi =>
      let '(st1, calls, _) := trk_pop_track st mmsi in mkResult st1 calls None
    | OpAttach ev cb => mkResult (with_broker st (brk_attach (t_broker st) ev cb)) [] None
    | OpDetach ev cb => mkResult (with_broker st (brk_detach (t_broker st) ev cb)) [] None
    | OpInsertOrUpdate now decoded ts =>
      let '(st1, calls, e) := trk_insert_or_update st (m_mmsi decoded) (trk_msg_to_track nattrs decoded ts now) in
      mkResult st1 calls e
    | OpSetTtl ttl => mkResult (with_ttl st ttl) [] None
    | OpUnordered => mkResult (with_ordered st false) [] None
    end.

  (* run a history; returns the final state and, per operation, its result *)
  Fixpoint trk_run (nattrs : nat) (st : trk_tracker) (h : list trk_op) : trk_tracker * list trk_result :=
    match h with
    | [] => (st, [])
    | op :: r =>
      let res := trk_step nattrs st op in
      let '(st', rs) := trk_run nattrs (r_state res) r in
      (st', res :: rs)
    end.

  Definition trk_final (nattrs : nat) (st : trk_tracker) (h : list trk_op) : trk_tracker :=
    fold_left (fun s op => r_state (trk_step nattrs s op)) h st.
End Tracker.

Arguments trk_track V : clear implicits.
Arguments trk_mattr V : clear implicits.
Arguments trk_msg V : clear implicits.
Arguments trk_tracker V : clear implicits.
Arguments trk_op V : clear implicits.
Arguments trk_result V : clear implicits.
Arguments trk_call V : clear implicits.

(* ================================================================================================================
   The same methods when subscriber callbacks may RAISE (the general model; `trk_*` above is its special case "every
   callback returns normally", see Proofs/TrackerCbProofs.v `trkc_step_quiet`).

   * What a callback does is data of the operation: `e_cb env cb event track` is the outcome of calling callback number
     `cb` with `track` for `event` during this operation -- it returns, or it raises an exception value.  The
     environment is an argument of every single operation, so a callback may behave differently from one operation to
     the next (callbacks with a state of their own are covered); within one operation it is a function of its
     arguments.  Callbacks do NOT touch the tracker: a callback that calls update/pop_track/cleanup/register_callback
     of the tracker it is subscribed to (re-entrancy) is outside the model.
   * `AISUpdateBroker.propagate` calls the matching callbacks in registration order; the first one that raises ends
     the loop (`brkc_propagate` returns the deliveries made, the raising one included, and the outcome).
   * `pop_track` wraps `del self._tracks[mmsi]; self._broker.propagate(track, DELETED); return track` in
     `try ... except KeyError: return None`: a KeyError raised by a DELETED callback is swallowed AFTER the track was
     deleted (pop_track returns None), any other exception escapes.  `insert_track` / `update_track` propagate after
     the table was changed and do not catch anything; `insert_or_update` then skips `__set_oldest_timestamp`, and
     `update` skips `cleanup()`.  `cleanup` pops the expired tracks one by one: an exception escaping from pop_track
     ends that loop, and `oldest_timestamp` (assigned after the loop) keeps its old value.
   * `to_be_deleted` is a Python set; `for mmsi in to_be_deleted` visits it in the set's iteration order, which is
     `e_iter env` of the list in insertion order (CPython: a function of the insertion sequence; the theorems only
     assume that it enumerates the same elements).
   Every method returns a `trkc_result`: the state left behind (also when raising), the propagate calls that were
   started, the callback invocations (deliveries) in order, the returned value (pop_track) and the exception. *)
Inductive cb_outcome := CbReturn | CbRaise (e : exn).

(* `except KeyError:` (no modelled exception class is a subclass of KeyError) *)
Definition exn_is_keyerror (e : exn) : bool := match e with Py KeyError => true | _ => false end.

Section TrackerCb.
  Context {V : Type}.
  Notation track := (trk_track V).
  Notation tracker := (trk_tracker V).
  Notation call := (trk_call V).
  Definition trk_delivery := (Z * trk_event * track)%type.

  Record trk_env := mkEnv {
    e_cb : Z -> trk_event -> track -> cb_outcome;    (* callback number -> event -> argument -> what the call does *)
    e_iter : list Z -> list Z }.                     (* iteration order of a set built by adding these in this order *)

  (* propagate: for destination, callback in self._callbacks: if event == destination: callback(track) *)
  Fixpoint brkc_propagate (env : trk_env) (b : trk_broker) (tr : track) (ev : trk_event)
    : list trk_delivery * cb_outcome :=
    match b with
    | [] => ([], CbReturn)
    | (destination, callback) :: r =>
      if trk_event_eqb ev destination then
        match e_cb env callback ev tr with
        | CbReturn => let '(ds, o) := brkc_propagate env r tr ev in ((callback, ev, tr) :: ds, o)
        | CbRaise e => ([(callback, ev, tr)], CbRaise e)
        end
      else brkc_propagate env r tr ev
    end.

  Record trkc_result := mkCResult {
    rc_state : tracker;                    (* the state left behind, also when the method raises *)
    rc_calls : list call;                  (* the propagate calls that were started, in order *)
    rc_deliv : list trk_delivery;          (* the callback invocations, in order (the raising one is the last) *)
    rc_ret : option track;                 (* pop_track: the returned track (None = returned None / raised) *)
    rc_exn : option exn }.

  Definition outcome_exn (o : cb_outcome) : option exn := match o with CbReturn => None | CbRaise e => Some e end.

  (* pop_track:
       try:
           mmsi = int(mmsi); track = self._tracks[mmsi]; del self._tracks[mmsi]
           self._broker.propagate(track, AISTrackEvent.DELETED)
           return track
       except KeyError:
           return None                                                                       *)
  Definition trkc_pop_track (env : trk_env) (st : tracker) (mmsi : Z) : trkc_result :=
    match idict_get (t_tracks st) mmsi with
    | None => mkCResult st [] [] None None                               (* KeyError of the lookup: return None *)
    | Some tr =>
      let st1 := with_tracks st (idict_del (t_tracks st) mmsi) in
      let '(ds, o) := brkc_propagate env (t_broker st1) tr DELETED in
      match o with
      | CbReturn => mkCResult st1 [(DELETED, tr)] ds (Some tr) None
      | CbRaise e =>
        if exn_is_keyerror e then mkCResult st1 [(DELETED, tr)] ds None None     (* except KeyError: return None *)
        else mkCResult st1 [(DELETED, tr)] ds None (Some e)
      end
    end.

  (* insert_track: self._tracks[mmsi] = new; self._broker.propagate(new, CREATED) *)
  Definition trkc_insert_track (env : trk_env) (st : tracker) (mmsi : Z) (new : track) : trkc_result :=
    let st1 := with_tracks st (idict_set (t_tracks st) mmsi new) in
    let '(ds, o) := brkc_propagate env (t_broker st1) new CREATED in
    mkCResult st1 [(CREATED, new)] ds None (outcome_exn o).

  (* AISTracker.update_track *)
  Definition trkc_update_track_m (env : trk_env) (st : tracker) (mmsi : Z) (new : track) : trkc_result :=
    match idict_get (t_tracks st) mmsi with
    | None => mkCResult st [] [] None (Some (Py KeyError))
    | Some old =>
      if tr_lu new <? tr_lu old then mkCResult st [] [] None (Some (Py ValueError))
      else
        let updated := trk_update_track old new in
        let st1 := with_tracks st (idict_set (idict_del (t_tracks st) mmsi) mmsi updated) in
        let '(ds, o) := brkc_propagate env (t_broker st1) updated UPDATED in
        mkCResult st1 [(UPDATED, updated)] ds None (outcome_exn o)
    end.

  (* insert_or_update:
       if mmsi in self._tracks: self.update_track(mmsi, track)
       else: self.__set_oldest_timestamp(track.last_updated); self.insert_track(mmsi, track)
       self.__set_oldest_timestamp(track.last_updated)
     The last statement is not reached when update_track / insert_track raise; the new track is covered by the cache
     all the same (an updated track is never older than it was). *)
  Definition trkc_insert_or_update (env : trk_env) (st : tracker) (mmsi : Z) (tr : track) : trkc_result :=
    let r := if idict_mem (t_tracks st) mmsi then trkc_update_track_m env st mmsi tr
             else trkc_insert_track env (trk_set_oldest_timestamp st (tr_lu tr)) mmsi tr in
    match rc_exn r with
    | Some _ => r
    | None => mkCResult (trk_set_oldest_timestamp (rc_state r) (tr_lu tr)) (rc_calls r) (rc_deliv r) None None
    end.

  (* for mmsi in to_be_deleted: self.pop_track(mmsi)      (an exception escaping from pop_track ends the loop) *)
  Fixpoint trkc_pop_all (env : trk_env) (st : tracker) (ms : list Z) : trkc_result :=
    match ms with
    | [] => mkCResult st [] [] None None
    | m :: r =>
      let r1 := trkc_pop_track env st m in
      match rc_exn r1 with
      | Some e => mkCResult (rc_state r1) (rc_calls r1) (rc_deliv r1) None (Some e)
      | None =>
        let r2 := trkc_pop_all env (rc_state r1) r in
        mkCResult (rc_state r2) (rc_calls r1 ++ rc_calls r2) (rc_deliv r1 ++ rc_deliv r2) None (rc_exn r2)
      end
    end.

  (* cleanup *)
  Definition trkc_cleanup (env : trk_env) (st : tracker) (now : Z) : trkc_result :=
    match t_ttl st with
    | None => mkCResult st [] [] None None
    | Some ttl =>
      match t_oldest st with
      | None => mkCResult st [] [] None None
      | Some oldest =>
        let t := now in
        if (t - ttl) <? oldest then mkCResult st [] [] None None
        else
          let tracks :=
            if t_ordered st then idict_values (t_tracks st)
            else trk_sorted (idict_values (t_tracks st)) in
          let '(oldest', to_be_deleted) := trk_cleanup_scan t ttl tracks (t_oldest st) [] in
          let r := trkc_pop_all env st (e_iter env to_be_deleted) in
          match rc_exn r with
          | Some _ => r                                  (* `self.oldest_timestamp = oldest` is not reached *)
          | None => mkCResult (with_oldest (rc_state r) oldest') (rc_calls r) (rc_deliv r) None None
          end
      end
    end.

  (* update *)
  Definition trkc_update (nattrs : nat) (env : trk_env) (st : tracker) (now : Z) (decoded : trk_msg V)
             (ts_epoch_ms : option Z) : trkc_result :=
    let mmsi := m_mmsi decoded in
    let tr := trk_msg_to_track nattrs decoded ts_epoch_ms now in
    match trk_ensure_timestamp_constraints st (tr_lu tr) with
    | (st1, Some e) => mkCResult st1 [] [] None (Some e)
    | (st1, None) =>
      let r2 := trkc_insert_or_update env st1 mmsi tr in
      match rc_exn r2 with
      | Some _ => r2                                              (* cleanup() is not reached *)
      | None =>
        let r3 := trkc_cleanup env (rc_state r2) now in
        mkCResult (rc_state r3) (rc_calls r2 ++ rc_calls r3) (rc_deliv r2 ++ rc_deliv r3) None (rc_exn r3)
      end
    end.

  Definition trkc_step (nattrs : nat) (env : trk_env) (st : tracker) (op : trk_op V) : trkc_result :=
    match op with
    | OpUpdate now decoded ts => trkc_update nattrs env st now decoded ts
    | OpCleanup now => trkc_cleanup env st now
    | OpPop mmsi => trkc_pop_track env st mmsi
    | OpAttach ev cb => mkCResult (with_broker st (brk_attach (t_broker st) ev cb)) [] [] None None
    | OpDetach ev cb => mkCResult (with_broker st (brk_detach (t_broker st) ev cb)) [] [] None None
    | OpInsertOrUpdate now decoded ts =>
      trkc_insert_or_update env st (m_mmsi decoded) (trk_msg_to_track nattrs decoded ts now)
    | OpSetTtl ttl => mkCResult (with_ttl st ttl) [] [] None None
    | OpUnordered => mkCResult (with_ordered st false) [] [] None None
    end.

  (* a history: every operation with the behaviour of the callbacks (and of the set iteration) during it *)
  Fixpoint trkc_run (nattrs : nat) (st : tracker) (h : list (trk_env * trk_op V)) : tracker * list trkc_result :=
    match h with
    | [] => (st, [])
    | (env, op) :: r =>
      let res := trkc_step nattrs env st op in
      let '(st', rs) := trkc_run nattrs (rc_state res) r in
      (st', res :: rs)
    end.

  (* ---- the bodies BEFORE `fix: keep oldest_timestamp a lower bound of the tracks when a subscriber callback raises`
     (only used by the refutation witnesses C13_unrepaired_refuted_... of Props/C13.v) ---- *)
  Definition trkc_insert_or_update_unrepaired (env : trk_env) (st : tracker) (mmsi : Z) (tr : track) : trkc_result :=
    let r := if idict_mem (t_tracks st) mmsi then trkc_update_track_m env st mmsi tr
             else trkc_insert_track env st mmsi tr in
    match rc_exn r with
    | Some _ => r
    | None => mkCResult (trk_set_oldest_timestamp (rc_state r) (tr_lu tr)) (rc_calls r) (rc_deliv r) None None
    end.

  Definition trkc_cleanup_unrepaired (env : trk_env) (st : tracker) (now : Z) : trkc_result :=
    match t_ttl st with
    | None => mkCResult st [] [] None None
    | Some ttl =>
      match t_oldest st with
      | None => mkCResult st [] [] None None
      | Some oldest =>
        let t := now in
        if (t - ttl) <? oldest then mkCResult st [] [] None None
        else
          let tracks :=
            if t_ordered st then idict_values (t_tracks st)
            else trk_sorted (idict_values (t_tracks st)) in
          (* the scan assigned self.oldest_timestamp itself *)
          let '(oldest', to_be_deleted) := trk_cleanup_scan t ttl tracks (t_oldest st) [] in
          trkc_pop_all env (with_oldest st oldest') (e_iter env to_be_deleted)
      end
    end.

  Definition trkc_update_unrepaired (nattrs : nat) (env : trk_env) (st : tracker) (now : Z) (decoded : trk_msg V)
             (ts_epoch_ms : option Z) : trkc_result :=
    let mmsi := m_mmsi decoded in
    let tr := trk_msg_to_track nattrs decoded ts_epoch_ms now in
    match trk_ensure_timestamp_constraints st (tr_lu tr) with
    | (st1, Some e) => mkCResult st1 [] [] None (Some e)
    | (st1, None) =>
      let r2 := trkc_insert_or_update_unrepaired env st1 mmsi tr in
      match rc_exn r2 with
      | Some _ => r2
      | None =>
        let r3 := trkc_cleanup_unrepaired env (rc_state r2) now in
        mkCResult (rc_state r3) (rc_calls r2 ++ rc_calls r3) (rc_deliv r2 ++ rc_deliv r3) None (rc_exn r3)
      end
    end.

  Definition trkc_step_unrepaired (nattrs : nat) (env : trk_env) (st : tracker) (op : trk_op V) : trkc_result :=
    match op with
    | OpUpdate now decoded ts => trkc_update_unrepaired nattrs env st now decoded ts
    | OpCleanup now => trkc_cleanup_unrepaired env st now
    | OpInsertOrUpdate now decoded ts =>
      trkc_insert_or_update_unrepaired env st (m_mmsi decoded) (trk_msg_to_track nattrs decoded ts now)
    | _ => trkc_step nattrs env st op
    end.

  Fixpoint trkc_run_unrepaired (nattrs : nat) (st : tracker) (h : list (trk_env * trk_op V)) : tracker * list trkc_result :=
    match h with
    | [] => (st, [])
    | (env, op) :: r =>
      let res := trkc_step_unrepaired nattrs env st op in
      let '(st', rs) := trkc_run_unrepaired nattrs (rc_state res) r in
      (st', res :: rs)
    end.

  (* ---- finite descriptions of an environment (the driver's line protocol, the Examples) ---- *)
  (* (callback, event, mmsi or None = every track, exception): calling `callback` for `event` with a track of that
     MMSI raises the exception; the first matching rule decides; no rule: the callback returns *)
  Definition trk_rule := (Z * trk_event * option Z * exn)%type.

  Fixpoint trk_cb_of_rules (rules : list trk_rule) (cb : Z) (ev : trk_event) (tr : track) : cb_outcome :=
    match rules with
    | [] => CbReturn
    | (c, e, m, x) :: r =>
      if (cb =? c) && trk_event_eqb ev e && (match m with None => true | Some m' => tr_mmsi tr =? m' end)
      then CbRaise x else trk_cb_of_rules r cb ev tr
    end.

  (* the elements of [l]: first those named by [hint], in the order of [hint], then the others in their own order *)
  Definition trk_iter_by_hint (hint l : list Z) : list Z :=
    filter (fun x => existsb (Z.eqb x) l) (fold_left (fun s x => trk_set_add x s) hint [])
    ++ filter (fun x => negb (existsb (Z.eqb x) hint)) l.

  Definition trk_env_of (rules : list trk_rule) (hint : list Z) : trk_env :=
    mkEnv (trk_cb_of_rules rules) (trk_iter_by_hint hint).

  (* every callback returns, the set is visited in insertion order *)
  Definition trk_env_quiet : trk_env := mkEnv (fun _ _ _ => CbReturn) (fun l => l).
End TrackerCb.

Arguments trk_env V : clear implicits.
Arguments trkc_result V : clear implicits.
Arguments trk_delivery V : clear implicits.
