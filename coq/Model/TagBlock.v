(* Model of pyais/messages.py: TagBlock (create, init, _parse_payload), TagBlockGroup.from_str and
   NMEASentenceFactory._pre_process / produce's handling of the tag block.  Statement by statement; exceptions are
   values.  Python str values are represented by their UTF-8 bytes (Prim/PyText.v).  No proofs here.

   tb_init models the REPAIRED init(): the first three statements (split at the asterisk, checksum, int(check, 16)) sit in
   `try: ... except (ValueError, TypeError): raise InvalidNMEAMessageException`. *)
From Coq Require Import ZArith List Bool String.
Require Import Prim.Exn Prim.Dict Prim.PyText Model.Sentence.
Import ListNotations.
Open Scope Z_scope.
Open Scope exn_scope.

(* TagBlock.FIELD_CODES (insertion order); compared with the class attribute on every run by the harness *)
Definition tb_field_codes : list (string * list Z) :=
  [ ("receiver_timestamp"%string, [99]);      (* c *)
    ("destination_station"%string, [100]);    (* d *)
    ("line_count"%string, [110]);             (* n *)
    ("relative_time"%string, [114]);          (* r *)
    ("source_station"%string, [115]);         (* s *)
    ("text"%string, [116]);                   (* t *)
    ("group"%string, [103]) ].                (* g *)

(* FIELD_NAMES = {code: name for name, code in FIELD_CODES.items()}: for a repeated code the last name wins *)
Definition tb_field_name (spec : list Z) : option string :=
  match find (fun nc => pt_list_eqb (snd nc) spec) (rev tb_field_codes) with
  | Some nc => Some (fst nc)
  | None => None
  end.

(* ---- TagBlock.create(fields as keyword arguments): fields in keyword order, value = str(val) as text, None = `val is None` ---- *)
Definition tb_create_pairs (fields : list (string * option (list Z))) : list (list Z) :=
  flat_map (fun kv =>
              match snd kv with
              | Some val =>
                  match dict_get tb_field_codes (fst kv) with
                  | Some field_code => [field_code ++ 58 :: val]          (* f"{field_code}:{val}".encode() *)
                  | None => []
                  end
              | None => []
              end) fields.

Definition tb_create (fields : list (string * option (list Z))) : M (list Z) :=
  let pairs := tb_create_pairs fields in
  let payload := pt_join 44 pairs in
  c <- pt_reduce_xor payload ;;                                          (* checksum(payload) *)
  Ok (payload ++ 42 :: pt_hex_upper c).                                  (* hex(..)[2:].upper() *)

(* ---- the parsed tag block ---- *)
Record tagblock := mkTb {
  tb_actual : Z;                          (* _actual_checksum *)
  tb_expected : Z;                        (* _expected_checksum *)
  tb_valid : bool;                        (* _is_valid *)
  tb_attrs : list (string * list Z);      (* the six text attributes that are not None, by name *)
  tb_group : option (Z * Z * Z)           (* (sentence_num, sentence_tot, group_id) *)
}.

Definition tb_attr (t : tagblock) (name : string) : option (list Z) := dict_get (tb_attrs t) name.
Definition tb_set_attr (t : tagblock) (name : string) (v : list Z) : tagblock :=
  mkTb (tb_actual t) (tb_expected t) (tb_valid t) (dict_set (tb_attrs t) name v) (tb_group t).
Definition tb_set_group (t : tagblock) (g : Z * Z * Z) : tagblock :=
  mkTb (tb_actual t) (tb_expected t) (tb_valid t) (tb_attrs t) (Some g).

Section Oracle.
  Variable uni : Z -> list Z -> option Z.     (* int() of non-ASCII text, see Prim/PyText.v *)

  (* TagBlockGroup.from_str *)
  Definition tb_group_from_str (raw : list Z) : M (Z * Z * Z) :=
    match pt_split_max 45 3 raw with                                     (* raw.split("-", 3) *)
    | [msg_id; msg_total; group_id] =>
        a <- pt_int uni 10 msg_id ;;
        b <- pt_int uni 10 msg_total ;;
        c <- pt_int uni 10 group_id ;;
        Ok (a, b, c)
    | _ => Raise (Py ValueError)                                         (* unpacking *)
    end.

  (* body of the try in _parse_payload's loop *)
  Definition tb_parse_field (t : tagblock) (field : list Z) : M tagblock :=
    if negb (pt_utf8_valid field) then Raise (Py UnicodeDecodeError)     (* field.decode() *)
    else
      match pt_split_max 58 1 field with                                 (* field_str.split(':', 1) *)
      | [spec; val] =>
          if pt_list_eqb spec [103] then                                 (* spec == 'g' *)
            g <- tb_group_from_str val ;; Ok (tb_set_group t g)
          else
            match tb_field_name spec with                                (* spec in self.FIELD_NAMES *)
            | Some name => Ok (tb_set_attr t name val)
            | None => Ok t
            end
      | _ => Raise (Py ValueError)
      end.

  Fixpoint tb_parse_fields (t : tagblock) (fields : list (list Z)) : M tagblock :=
    match fields with
    | [] => Ok t
    | field :: r =>
        t' <- try_except (tb_parse_field t field) [HPy ValueError; HPy UnicodeDecodeError] (fun _ => Ok t) ;;
        tb_parse_fields t' r
    end.

  Definition tb_parse_payload (t : tagblock) (payload : list Z) : M tagblock :=
    tb_parse_fields t (pt_split 44 payload).

  (* TagBlock.init() *)
  Definition tb_init_head (raw : list Z) : M (list Z * Z * Z) :=
    match pt_split 42 raw with                                           (* payload, check = self.raw.split(ASTERISK) *)
    | [payload; check] =>
        a <- pt_reduce_xor payload ;;
        e <- (if pt_utf8_valid check then pt_int uni 16 check else Raise (Py UnicodeDecodeError)) ;;
        Ok (payload, a, e)
    | _ => Raise (Py ValueError)
    end.

  Definition tb_init (raw : list Z) : M tagblock :=
    h <- try_except (tb_init_head raw) [HPy ValueError; HPy TypeError]
           (fun _ => Raise (Lib InvalidNMEAMessageException)) ;;
    let '(payload, a, e) := h in
    tb_parse_payload (mkTb a e (a =? e) [] None) payload.

  (* the code before the repair: no try around the head (kept for the record of what C05 found; not extracted
     into any theorem of the repaired code) *)
  Definition tb_init_unrepaired (raw : list Z) : M tagblock :=
    h <- tb_init_head raw ;;
    let '(payload, a, e) := h in
    tb_parse_payload (mkTb a e (a =? e) [] None) payload.
End Oracle.

(* ---- NMEASentenceFactory._pre_process ---- *)
Definition tb_pre_process (raw0 : list Z) : M (list Z * option (list Z)) :=
  let raw := pt_strip raw0 in
  match raw with
  | [] => Raise (Py IndexError)                                          (* raw[0] *)
  | c0 :: _ =>
      if c0 =? 92 then
        let ix_start := 0 in
        let ix_end := pt_find 92 (pt_slice_from 1 raw) + 1 in
        let tag_block := pt_slice (ix_start + 1) ix_end raw in
        Ok (pt_slice_from (ix_end + 1) raw, Some tag_block)
      else Ok (raw, None)
  end.

(* NMEASentenceFactory.produce, over any parser of the bare sentence (_produce; Model/Nmea.v) *)
Definition tb_produce_with (parse : list Z -> M sentence) (raw : list Z) : M sentence :=
  match raw with
  | [] => Raise (Lib InvalidNMEAMessageException)
  | _ :: _ =>
      p <- tb_pre_process raw ;;
      s <- parse (fst p) ;;
      match snd p with
      | Some tb => match tb with [] => Ok s | _ :: _ => Ok (sentence_set_tag_block s (Some tb)) end   (* if tb: *)
      | None => Ok s
      end
  end.
