(* L4 framing: hand-written model of pyais/encode.py
     get_ais_type, data_to_payload, ais_to_nmea_0183, encode_dict, encode_msg
   and of util.compute_checksum (str argument), following the Python statement by statement.
   Strings are lists of character codes (Z); only ASCII text is modelled (str.encode() is then the identity on
   codes) -- any other character makes the model answer [Py Unmodelled].
   The literals of ais_to_nmea_0183 (fragment size 60, the template "!{},{},{},{},{},{},{}*{:02X}", seq id '0', the
   lengths 5 and 1) are written here by hand; they are tied to the code by the correspondence check of C09
   (every payload length 0..200, boundary lengths 59/60/61/119/120/121/178/...).
   Built on Model/Codec.v (create_msg, to_bitarray, encode_ascii_6).  No proofs in this file. *)
From Coq Require Import ZArith List Bool String.
Require Import Prim.Exn Prim.Bits Prim.Fmt Model.FieldTypes Gen.GenTables Model.Codec.
Import ListNotations.
Open Scope list_scope.
Open Scope Z_scope.
Open Scope exn_scope.
Local Notation length := List.length (only parsing).

Definition frm_chars := list Z.

Definition frm_is_ascii (c : Z) : bool := (0 <=? c) && (c <? 128).

(* ------------------------------------------------------------------------------------------------ *)
(* util.compute_checksum(msg) for a str argument:
     msg = msg.encode(); msg = msg[1:].split(b'*', 1)[0]; return reduce(xor, msg)                     *)

(* bytes.split(b'*', 1)[0]: everything before the first separator (the whole string if there is none) *)
Fixpoint frm_split1_head (sep : Z) (s : frm_chars) : frm_chars :=
  match s with
  | [] => []
  | c :: r => if c =? sep then [] else c :: frm_split1_head sep r
  end.

(* functools.reduce(operator.xor, seq, 0): 0 for an empty sequence (since "fix: compute_checksum() of an empty
   sentence body is 0 instead of a TypeError"; 0 xor c = c, so a non-empty sequence folds as before) *)
Definition frm_reduce_xor (s : frm_chars) : M Z :=
  match s with
  | [] => Ok 0
  | c :: r => Ok (fold_left Z.lxor r c)
  end.

Definition frm_compute_checksum (msg : frm_chars) : M Z :=
  let msg := frm_split1_head 42 (tl msg) in      (* msg[1:].split(b'*', 1)[0] *)
  frm_reduce_xor msg.

(* ------------------------------------------------------------------------------------------------ *)
(* encode.ais_to_nmea_0183                                                                            *)

(* tpl = "!{},{},{},{},{},{},{}*{:02X}";  tpl.format(talker, frag_cnt, frag_num, seq_id, channel, chunk, fill, checksum) *)
Definition tpl_format (ais_talker_id : frm_chars) (frag_cnt frag_num : Z) (seq_id radio_channel chunk : frm_chars)
           (fill_bits_frag checksum : Z) : frm_chars :=
  [33] ++ ais_talker_id ++ [44] ++ fmt_dec frag_cnt ++ [44] ++ fmt_dec frag_num ++ [44] ++ seq_id ++ [44]
       ++ radio_channel ++ [44] ++ chunk ++ [44] ++ fmt_dec fill_bits_frag ++ [42] ++ fmt_02X checksum.

(* for frag_num, chunk in enumerate(chunks(payload, frm_max_len), start=1): ... messages.append(msg) *)
Fixpoint frame_loop (ais_talker_id : frm_chars) (frag_cnt : Z) (seq_id radio_channel : frm_chars) (fill_bits : Z)
         (frag_num : Z) (cs : list frm_chars) : M (list frm_chars) :=
  match cs with
  | [] => Ok []
  | chunk :: rest =>
    let fill_bits_frag := if frag_num =? frag_cnt then fill_bits else 0 in
    let dummy_message := tpl_format ais_talker_id frag_cnt frag_num seq_id radio_channel chunk fill_bits_frag 0 in
    checksum <- frm_compute_checksum dummy_message ;;
    let msg := tpl_format ais_talker_id frag_cnt frag_num seq_id radio_channel chunk fill_bits_frag checksum in
    messages <- frame_loop ais_talker_id frag_cnt seq_id radio_channel fill_bits (frag_num + 1) rest ;;
    Ok (msg :: messages)
  end.

Definition frm_max_len : nat := 60.

(* math.ceil(a / b) for 0 <= a, 0 < b (exact for every list length that can exist) *)
Definition frm_ceil_div (a b : Z) : Z := (a + b - 1) / b.

Definition ais_to_nmea_0183 (payload ais_talker_id radio_channel : frm_chars) (fill_bits : Z) : M (list frm_chars) :=
  if negb (forallb frm_is_ascii payload && forallb frm_is_ascii ais_talker_id && forallb frm_is_ascii radio_channel)
  then Raise (Py Unmodelled) else
  let frag_cnt := frm_ceil_div (Z.of_nat (length payload)) (Z.of_nat frm_max_len) in
  let seq_id := if 1 <? frag_cnt then [48] else [] in
  if negb (Nat.eqb (length ais_talker_id) 5) then Raise (Py ValueError) else
  if negb (Nat.eqb (length radio_channel) 1) then Raise (Py ValueError) else
  frame_loop ais_talker_id frag_cnt seq_id radio_channel fill_bits 1 (chunks frm_max_len payload).

(* ------------------------------------------------------------------------------------------------ *)
(* encode.get_ais_type                                                                                *)

(* int(x) for the values a data dictionary can hold.  For text only two sub-cases are decided: a plain string of
   ASCII digits (-> its value) and a string that cannot be an integer literal whatever CPython's grammar allows
   (empty, or containing an ASCII character that is neither digit, white space, sign nor underscore -> ValueError);
   the rest (signs, blanks, underscores, non-ASCII digits, > 4300 digits) is outside the model. *)
Definition frm_int_ws (c : Z) : bool := ((9 <=? c) && (c <=? 13)) || ((28 <=? c) && (c <=? 32)).
Definition frm_maybe_int_char (c : Z) : bool :=
  ((48 <=? c) && (c <=? 57)) || frm_int_ws c || (c =? 43) || (c =? 45) || (c =? 95) || negb (frm_is_ascii c).

Definition frm_py_int (v : value) : M Z :=
  match v with
  | VNone => Raise (Py TypeError)
  | VInt z => Ok z
  | VBool b => Ok (b2z b)
  | VEnum _ z => Ok z
  | VFloat n d => Ok (trunc_div n (Zpos d))
  | VTurn z => Ok z
  | VStr s =>
    if (4300 <? Z.of_nat (length s)) then Raise (Py Unmodelled) else
    match parse_digits s with
    | Some z => Ok z
    | None => if Nat.eqb (length s) 0 || negb (forallb frm_maybe_int_char s) then Raise (Py ValueError)
              else Raise (Py Unmodelled)
    end
  | VBytes _ => Raise (Py Unmodelled)
  end.

(* keys = ['type', 'msg_type']; for i, key in enumerate(keys): try: return int(data[key])
   except (KeyError, ValueError): if i == length: raise ValueError(...)                               *)
Fixpoint get_ais_type_loop (data : list (string * value)) (length_ : nat) (i : nat) (keys : list string) : M Z :=
  match keys with
  | [] => Raise (Py ValueError)                       (* raise ValueError("Missing type") *)
  | key :: rest =>
    try_except
      (match assoc_s key data with
       | None => Raise (Py KeyError)                  (* data[key] *)
       | Some ais_type => frm_py_int ais_type
       end)
      [HPy KeyError; HPy ValueError]
      (fun _ => if Nat.eqb i length_ then Raise (Py ValueError)
                else get_ais_type_loop data length_ (S i) rest)
  end.

Definition ais_type_keys : list string := ["type"%string; "msg_type"%string].

Definition get_ais_type (data : list (string * value)) : M Z :=
  get_ais_type_loop data (length ais_type_keys - 1) 0 ais_type_keys.

(* encode.data_to_payload: try: MSG_CLASS[ais_type].create( **data ) except KeyError: raise ValueError *)
Definition data_to_payload (ais_type : Z) (data : list (string * value)) : M (cls * list value) :=
  try_except (create_msg ais_type data) [HPy KeyError] (fun _ => Raise (Py ValueError)).

(* ------------------------------------------------------------------------------------------------ *)
(* encode.encode_dict / encode_msg                                                                    *)

Definition frm_chars_eqb (a b : frm_chars) : bool :=
  Nat.eqb (length a) (length b) && forallb (fun p => fst p =? snd p) (combine a b).

Definition frm_AIVDM : frm_chars := [65; 73; 86; 68; 77].
Definition frm_AIVDO : frm_chars := [65; 73; 86; 68; 79].

Definition check_talker_channel (talker_id radio_channel : frm_chars) : M unit :=
  if negb (existsb (frm_chars_eqb talker_id) [frm_AIVDM; frm_AIVDO]) then Raise (Py ValueError) else
  if negb (existsb (frm_chars_eqb radio_channel) [[65]; [66]]) then Raise (Py ValueError) else
  Ok tt.

Definition encode_msg (msg : cls * list value) (talker_id radio_channel : frm_chars) : M (list frm_chars) :=
  _ <- check_talker_channel talker_id radio_channel ;;
  '(armored_payload, fill_bits) <- encode_msg_payload (fst msg) (snd msg) ;;
  ais_to_nmea_0183 armored_payload talker_id radio_channel (Z.of_nat fill_bits).

Definition encode_dict (data : list (string * value)) (talker_id radio_channel : frm_chars) : M (list frm_chars) :=
  _ <- check_talker_channel talker_id radio_channel ;;
  ais_type <- get_ais_type data ;;
  payload <- data_to_payload ais_type data ;;
  '(armored_payload, fill_bits) <- encode_msg_payload (fst payload) (snd payload) ;;
  ais_to_nmea_0183 armored_payload talker_id radio_channel (Z.of_nat fill_bits).
