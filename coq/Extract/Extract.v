(* Extraction of the executable model and of the specification oracles.
   ExtrOcamlBasic only; Z, N, positive, nat, string stay the extracted inductive types.
   Depends on Gen/, Model/ and Spec/ but on no proof file. *)
From Coq Require Import ZArith List String.
From Coq Require Extraction ExtrOcamlBasic.
Require Import Prim.Exn Prim.Dict Prim.Bits Gen.GenEnums Gen.GenComm Spec.CommSpec.
Require Import Model.FieldTypes Gen.GenTables Gen.GenDispatch Gen.GenConv Gen.GenAlpha Gen.GenConst Model.Codec Spec.Layout.
Extraction Language OCaml.
Extraction "extracted.ml"
  (* integers, used by the driver's I/O conversions *)
  Z.add Z.mul Z.opp Z.div_eucl Z.eqb Z.ltb Z.of_nat Z.to_nat
  (* C20 *)
  (* codec *)
  decode_bits decode_bits_as decode_into_bit_array create_msg to_bitarray encode_ascii_6 fields_of class_name enum_name
  all_classes all_enums from_bitarray create_cls
  spec_variant spec_decode variant_class nominal disc_end text_pad_zero senum_name spec_layout
  get_communication_state is_sotdma is_itdma communication_state_raw comm_spec spec_scheme utc_minute_comparable.
