(* Extraction of the executable model and of the specification oracles.
   ExtrOcamlBasic only; Z, N, positive, nat, string stay the extracted inductive types.
   Depends on Gen/, Model/ and Spec/ but on no proof file. *)
From Coq Require Import ZArith List String.
From Coq Require Extraction ExtrOcamlBasic.
Require Import Prim.Exn Prim.Dict Prim.Bits Gen.GenEnums Gen.GenComm Spec.CommSpec.
Extraction Language OCaml.
Extraction "extracted.ml"
  (* integers, used by the driver's I/O conversions *)
  Z.add Z.mul Z.opp Z.div_eucl Z.eqb Z.ltb Z.of_nat Z.to_nat
  (* C20 *)
  get_communication_state is_sotdma is_itdma communication_state_raw comm_spec spec_scheme utc_minute_comparable.
