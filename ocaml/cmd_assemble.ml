(* reassembly loops: C03 C07 C18.

   Text form of the values (no blanks inside a token; byte strings hex with "-" for empty, str values as dotted code
   points with "-" for empty, Optional as "N"):
     AIS sentence    A:raw:delim:talker:type:checksum:fill:valid:tagblock:cnt:num:seq:chan:payload:bits:aisid
     Gatehouse       G:raw:delim:talker:type:checksum:fill:valid:tagblock:y.m.d.h.mi.s.us:country:region:pss:online
     parse outcome   <sentence>  |  R:<exception class>           (= M sentence)
     input line      <parse outcome>[/T:<exception class>]        (/T = tbq.put_sentence raised)
     delivered       <AIS sentence>@<Gatehouse or N>              (@ = .wrapper_msg)
   Commands:
     asm_run stream|queue <input line>...      -> per line "=" ^ deliveries (several on a line joined by ","), lines joined by "|", then
                                                  " # Ok <state>" or " # Raise <class>"
     asm_run_b <puts> <input line>...          puts = one letter per input line, O = the final put of put_line would be accepted,
                                                  F = it would raise queue.Full (bounded NMEAQueue, queue_step_b)
                                               -> per line "=" (no put reached) | "=" ^ the sentence put | "=!Full", joined by "|",
                                                  then " # Ok <state>" or " # Raise <class>"
     asm_spec <item>...   item = F<msg index>/<AIS sentence> | <Gatehouse> | R:<class>
                                               -> per line spec deliveries "raw;payload;bits;valid;seq;chan" joined by "|"
     asm_wf <item>...                          -> 1 when the schedule passes the (proved sound) well-formedness check
     asm_specw <event>... event = W<Gatehouse> | D | N         -> per line "<Gatehouse or N>" or empty, joined by "|"
     asm_src iter|stream <hex line>...         -> the lines that reach the loop
     asm_split <hex content>                   -> binaryio_source content (file iteration + Stream filter)
     pylist get|set|slice <len> <i> [<j>]      -> Python list primitives on [0, 1, .., len-1] *)
open Extracted
open Drvlib

let asm_cps (l : z list) : ostring = if l = [] then "-" else String.concat "." (List.map string_of_z l)
let asm_cps_of (s : ostring) : z list =
  if s = "-" || s = "" then [] else List.map z_of_string (String.split_on_char '.' s)
let asm_optbytes = function None -> "N" | Some b -> hex_or_dash b
let asm_optbytes_of s = if s = "N" then None else Some (bytes_of_hex s)
let asm_optz_of s = if s = "N" then None else Some (z_of_string s)
let asm_str_optz = function None -> "N" | Some v -> string_of_z v

let exn_of_name (n : ostring) : exn =
  match n with
  | "InvalidNMEAMessageException" -> Lib InvalidNMEAMessageException
  | "InvalidNMEAChecksum" -> Lib InvalidNMEAChecksum
  | "UnknownMessageException" -> Lib UnknownMessageException
  | "MissingMultipartMessageException" -> Lib MissingMultipartMessageException
  | "TooManyMessagesException" -> Lib TooManyMessagesException
  | "UnknownPartNoException" -> Lib UnknownPartNoException
  | "InvalidDataTypeException" -> Lib InvalidDataTypeException
  | "NonPrintableCharacterException" -> Lib NonPrintableCharacterException
  | "MissingPayloadException" -> Lib MissingPayloadException
  | "TagBlockNotInitializedException" -> Lib TagBlockNotInitializedException
  | "ValueError" -> Py ValueError | "UnicodeDecodeError" -> Py UnicodeDecodeError | "IndexError" -> Py IndexError
  | "TypeError" -> Py TypeError | "KeyError" -> Py KeyError | "OverflowError" -> Py OverflowError
  | "AttributeError" -> Py AttributeError | "ZeroDivisionError" -> Py ZeroDivisionError
  | _ -> Py Unmodelled

let str_common (c : nmea_common) : ostring =
  String.concat ":" [hex_or_dash c.c_raw; hex_or_dash c.c_delimiter; asm_cps c.c_talker_id; asm_cps c.c_type;
                     string_of_z c.c_checksum; string_of_z c.c_fill_bits; str_bool c.c_is_valid;
                     asm_optbytes c.c_tag_block]
let common_of (f : ostring list) : nmea_common * ostring list =
  match f with
  | raw :: delim :: talker :: typ :: chk :: fill :: valid :: tb :: rest ->
    ({ c_raw = bytes_of_hex raw; c_delimiter = bytes_of_hex delim; c_talker_id = asm_cps_of talker;
       c_type = asm_cps_of typ; c_checksum = z_of_string chk; c_fill_bits = z_of_string fill;
       c_is_valid = (valid = "1"); c_data_fields = []; c_tag_block = asm_optbytes_of tb }, rest)
  | _ -> failwith "bad sentence token"

let str_gatehouse (g : gatehouse) : ostring =
  let t = g.g_timestamp in
  String.concat ":" ["G"; str_common g.g_common;
                     String.concat "." (List.map string_of_z [t.ts_year; t.ts_month; t.ts_day; t.ts_hour; t.ts_minute;
                                                              t.ts_second; t.ts_micro]);
                     asm_cps g.g_country; asm_cps g.g_region; asm_cps g.g_pss; string_of_z g.g_online_data]
let str_ais_plain (a : ais_sentence) : ostring =
  String.concat ":" ["A"; str_common a.a_common; string_of_z a.a_frag_cnt; string_of_z a.a_frag_num;
                     asm_str_optz a.a_seq_id; asm_cps a.a_channel; hex_or_dash a.a_payload; string_of_bits a.a_bits;
                     string_of_z a.a_ais_id]
let str_delivered (a : ais_sentence) : ostring =
  str_ais_plain a ^ "@" ^ (match a.a_wrapper with None -> "N" | Some g -> str_gatehouse g)

let gatehouse_of (tok : ostring) : gatehouse =
  match String.split_on_char ':' tok with
  | "G" :: f ->
    let (c, rest) = common_of f in
    (match rest with
     | [ts; country; region; pss; online] ->
       (match List.map z_of_string (String.split_on_char '.' ts) with
        | [y; mo; d; h; mi; s; us] ->
          { g_common = c;
            g_timestamp = { ts_year = y; ts_month = mo; ts_day = d; ts_hour = h; ts_minute = mi; ts_second = s;
                            ts_micro = us };
            g_country = asm_cps_of country; g_region = asm_cps_of region; g_pss = asm_cps_of pss;
            g_online_data = z_of_string online }
        | _ -> failwith "bad timestamp")
     | _ -> failwith "bad gatehouse token")
  | _ -> failwith "bad gatehouse token"

let ais_of (tok : ostring) : ais_sentence =
  match String.split_on_char ':' tok with
  | "A" :: f ->
    let (c, rest) = common_of f in
    (match rest with
     | [cnt; num; seq; chan; payload; bits; aisid] ->
       { a_common = c; a_frag_cnt = z_of_string cnt; a_frag_num = z_of_string num; a_seq_id = asm_optz_of seq;
         a_channel = asm_cps_of chan; a_payload = bytes_of_hex payload; a_bits = bits_of_string bits;
         a_ais_id = z_of_string aisid; a_wrapper = None }
     | _ -> failwith "bad ais token")
  | _ -> failwith "bad ais token"

let parsed_of (tok : ostring) : sentence m =
  match tok.[0] with
  | 'A' -> Ok (SAis (ais_of tok))
  | 'G' -> Ok (SGatehouse (gatehouse_of tok))
  | 'R' -> Raise (exn_of_name (String.sub tok 2 (String.length tok - 2)))
  | _ -> failwith "bad parse outcome"

let input_of (tok : ostring) : sentence m * exn option =
  match String.index_opt tok '/' with
  | None -> (parsed_of tok, None)
  | Some i ->
    let t = String.sub tok (i + 1) (String.length tok - i - 1) in
    (parsed_of (String.sub tok 0 i), Some (exn_of_name (String.sub t 2 (String.length t - 2))))

let str_state ((buf, w) : asm_state) : ostring =
  let slot ((seq, chan), arr) =
    let cells = List.concat (List.mapi (fun i c -> match c with
        | None -> []
        | Some a -> [string_of_int i ^ "=" ^ hex_or_dash a.a_common.c_raw]) arr) in
    "[" ^ string_of_z seq ^ ";" ^ asm_cps chan ^ ";" ^ string_of_int (List.length arr) ^ ";"
    ^ String.concat "," cells ^ "]" in
  "B" ^ String.concat "" (List.map slot buf) ^ "W" ^ (match w with None -> "N" | Some g -> str_gatehouse g)

let () = register "asm_run" (function
  | which :: toks ->
    let step = (match which with "stream" -> stream_step | "queue" -> queue_step | _ -> failwith "bad loop") in
    let (outs, fin) = asm_run step asm_init (List.map input_of toks) in
    String.concat "|" (List.map (fun o -> "=" ^ String.concat "," (List.map str_delivered o)) outs)
    ^ " # " ^ (match fin with Ok st -> "Ok " ^ str_state st | Raise e -> "Raise " ^ str_exn e)
  | _ -> "ERROR bad arguments for asm_run")

let () = register "asm_run_b" (function
  | puts :: toks when String.length puts = List.length toks ->
    let env i = (match puts.[i] with 'O' -> BqPutOk | 'F' -> BqPutFull | _ -> failwith "bad put outcome") in
    let (outs, fin) = bq_run queue_step_b asm_init (List.mapi (fun i t -> (input_of t, env i)) toks) in
    String.concat "|" (List.map (function BqNone -> "=" | BqPut a -> "=" ^ str_delivered a | BqFull -> "=!Full") outs)
    ^ " # " ^ (match fin with Ok st -> "Ok " ^ str_state st | Raise e -> "Raise " ^ str_exn e)
  | _ -> "ERROR bad arguments for asm_run_b")

let item_of (tok : ostring) : asm_item =
  match tok.[0] with
  | 'F' ->
    let i = String.index tok '/' in
    IFrag { sf_msg = nat_of_int (int_of_string (String.sub tok 1 (i - 1)));
            sf_sent = ais_of (String.sub tok (i + 1) (String.length tok - i - 1)) }
  | 'G' -> IWrapper (gatehouse_of tok)
  | 'R' -> (match exn_of_name (String.sub tok 2 (String.length tok - 2)) with
            | Lib e -> ISkipped e
            | Py _ -> failwith "skipped lines carry library exceptions")
  | _ -> failwith "bad schedule item"

let str_delivery (d : asm_delivery) : ostring =
  String.concat ";" [hex_or_dash d.d_raw; hex_or_dash d.d_payload; string_of_bits d.d_bits; str_bool d.d_valid;
                     asm_str_optz d.d_seq_id; asm_cps d.d_channel]

let () = register "asm_spec" (fun toks ->
  String.concat "|" (List.map (fun o -> "=" ^ String.concat "," (List.map str_delivery o))
                       (spec_deliveries (List.map item_of toks))))

let () = register "asm_specw" (fun toks ->
  let ev t = (match t.[0] with
      | 'W' -> EWrap (gatehouse_of (String.sub t 1 (String.length t - 1)))
      | 'D' -> EDeliver
      | 'N' -> ENone
      | _ -> failwith "bad event") in
  String.concat "|" (List.map (fun o -> "=" ^ String.concat "," (List.map (function None -> "N" | Some g -> str_gatehouse g) o))
                       (spec_wrapper (List.map ev toks))))

let () = register "asm_wf" (fun toks -> str_bool (asm_wf_check (List.map item_of toks)))

let str_lines (ls : z list list) : ostring = String.concat " " (List.map hex_or_dash ls)

let () = register "asm_src" (function
  | which :: toks ->
    let ls = List.map bytes_of_hex toks in
    str_lines (match which with
        | "iter" -> iter_source ls
        | "stream" -> bytestream_source ls
        | _ -> failwith "bad source") ^ " ."
  | _ -> "ERROR bad arguments for asm_src")

let () = register "asm_split" (function
  | [content] -> str_lines (binaryio_source (bytes_of_hex content)) ^ " ."
  | _ -> "ERROR bad arguments for asm_split")

let () = register "pylist" (function
  | op :: len :: i :: rest ->
    let l = List.init (int_of_string len) z_of_int in
    let show x = String.concat "," (List.map string_of_z x) in
    (match op, rest with
     | "get", [] -> str_m string_of_z (pyl_getitem l (z_of_string i))
     | "set", [] -> str_m show (pyl_setitem l (z_of_string i) (z_of_int (-7)))
     | "slice", [j] -> "Ok " ^ show (pyl_slice l (z_of_string i) (z_of_string j))
     | "repeat", [] -> "Ok " ^ show (pyl_repeat (z_of_int 5) (z_of_string i))
     | _ -> "ERROR bad pylist op")
  | _ -> "ERROR bad arguments for pylist")
