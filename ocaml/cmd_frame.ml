(* sentence framing: C09 (and the framing step of C02).
   Every string travels as the hex text of its character codes ("-" = empty string). *)
open Extracted
open Drvlib

let str_sentences (ss : z list list) : ostring =
  if ss = [] then "-" else String.concat "," (List.map hex_or_dash ss)
let sentences_of_string (s : ostring) : z list list =
  if s = "-" then [] else List.map bytes_of_hex (String.split_on_char ',' s)

(* ---- kwargs text (same syntax as the codec commands: name=value;name=value, see cmd_codec.ml) ---- *)
let frm_cps_of_string (s : ostring) : z list =
  if s = "" then [] else List.map z_of_string (String.split_on_char '.' s)
let frm_enum_of_name (n : ostring) : enum_id =
  match List.filter (fun e -> ocaml_string (enum_name e) = n) all_enums with
  | e :: _ -> e
  | [] -> failwith ("unknown enum " ^ n)
let frm_pos_of_z = function Zpos p -> p | _ -> failwith "positive expected"
let frm_value_of_string (s : ostring) : value =
  if s = "N" then VNone else
  let body = String.sub s 1 (String.length s - 1) in
  match s.[0] with
  | 'i' -> VInt (z_of_string body)
  | 'b' -> VBool (body = "1")
  | 'f' -> (match String.split_on_char '/' body with
            | [n; d] -> VFloat (z_of_string n, frm_pos_of_z (z_of_string d))
            | _ -> failwith "bad float")
  | 's' -> VStr (frm_cps_of_string body)
  | 'y' -> VBytes (bytes_of_hex (if body = "" then "-" else body))
  | 'e' -> (match String.split_on_char ':' body with
            | [n; c] -> VEnum (frm_enum_of_name n, z_of_string c)
            | _ -> failwith "bad enum")
  | 't' -> VTurn (z_of_string body)
  | _ -> failwith ("bad value " ^ s)
let frm_kwargs_of_string (s : ostring) : (Extracted.string * value) list =
  if s = "-" then [] else
  List.map (fun kv -> match String.index_opt kv '=' with
      | Some i -> (coq_string (String.sub kv 0 i), frm_value_of_string (String.sub kv (i + 1) (String.length kv - i - 1)))
      | None -> failwith "bad kwarg") (String.split_on_char ';' s)

let str_clause = function
  | ClLength -> "length" | ClShape -> "shape" | ClStart -> "start" | ClChecksum -> "checksum"
  | ClAlphabet -> "alphabet" | ClNumbering -> "numbering" | ClSeq -> "seq" | ClFill -> "fill" | ClConcat -> "concat"
  | ClChannel -> "channel" | ClSeqSingle -> "seq-single"
let str_clauses (l : fs_clause list) : ostring = if l = [] then "-" else String.concat "," (List.map str_clause l)

(* fmt <n> -> "<str(n) hex> <format(n,'02X') hex>" *)
let () = register "fmt" (function
  | [n] -> let z = z_of_string n in hex_or_dash (fmt_dec z) ^ " " ^ hex_or_dash (fmt_02X z)
  | _ -> "ERROR bad arguments for fmt")

(* checksum <msg hex> -> util.compute_checksum(str) *)
let () = register "frmchecksum" (function
  | [m] -> str_m string_of_z (frm_compute_checksum (bytes_of_hex m))
  | _ -> "ERROR bad arguments for frmchecksum")

(* frame <payload> <talker> <channel> <fill> -> ais_to_nmea_0183 *)
let () = register "frame" (function
  | [p; t; c; f] ->
    str_m str_sentences (ais_to_nmea_0183 (bytes_of_hex p) (bytes_of_hex t) (bytes_of_hex c) (z_of_string f))
  | _ -> "ERROR bad arguments for frame")

(* encdict <talker> <channel> <kwargs> -> encode_dict(data, talker, channel) *)
let () = register "encdict" (function
  | [t; c; kw] -> str_m str_sentences (encode_dict (frm_kwargs_of_string kw) (bytes_of_hex t) (bytes_of_hex c))
  | _ -> "ERROR bad arguments for encdict")

(* encmsg <talker> <channel> <type> <kwargs> -> encode_msg(MSG_CLASS[type].create( **kwargs ), talker, channel) *)
let () = register "encmsg" (function
  | [t; c; ty; kw] ->
    (match create_msg (z_of_string ty) (frm_kwargs_of_string kw) with
     | Raise e -> "CreateRaise " ^ str_exn e
     | Ok m -> str_m str_sentences (encode_msg m (bytes_of_hex t) (bytes_of_hex c)))
  | _ -> "ERROR bad arguments for encmsg")

(* aistype <kwargs> -> get_ais_type(data) *)
let () = register "aistype" (function
  | [kw] -> str_m string_of_z (get_ais_type (frm_kwargs_of_string kw))
  | _ -> "ERROR bad arguments for aistype")

(* c09spec <talker> <channel> <payload> <fill> <sentences> -> failed text clauses | failed extra clauses *)
let () = register "c09spec" (function
  | [t; c; p; f; ss] ->
    let t = bytes_of_hex t and c = bytes_of_hex c and p = bytes_of_hex p and f = z_of_string f
    and ss = sentences_of_string ss in
    str_clauses (fs_failed_clauses t c p f ss fs_text_clauses) ^ " "
    ^ str_clauses (fs_failed_clauses t c p f ss fs_extra_clauses)
  | _ -> "ERROR bad arguments for c09spec")

(* armorspec <bits> -> "<armored text hex> <padding to six>" by the specification *)
let () = register "armorspec" (function
  | [b] ->
    let bits = bits_of_string b in
    hex_or_dash (fs_spec_armor bits) ^ " " ^ string_of_z (fs_padding_to_six (z_of_int (List.length bits)))
  | _ -> "ERROR bad arguments for armorspec")

(* armor <bits> -> util.encode_ascii_6(bits): "Ok <text hex> <fill>" *)
let () = register "armor" (function
  | [b] ->
    str_m (fun (p, fill) -> hex_or_dash p ^ " " ^ string_of_int (int_of_nat fill)) (encode_ascii_6 (bits_of_string b))
  | _ -> "ERROR bad arguments for armor")
