(* payload codec: C01 C02 C08 C11 *)
open Extracted
open Drvlib

(* ---- codec values ---- *)




let str_cps (l : z list) : ostring = String.concat "." (List.map string_of_z l)
let cps_of_string (s : ostring) : z list =
  if s = "" then [] else List.map z_of_string (String.split_on_char '.' s)
let str_pos (p : positive) : ostring = string_of_z (Zpos p)

let str_value (v : value) : ostring =
  match v with
  | VNone -> "N"
  | VInt x -> "i" ^ string_of_z x
  | VBool b -> if b then "b1" else "b0"
  | VFloat (n, d) -> "f" ^ string_of_z n ^ "/" ^ str_pos d
  | VStr s -> "s" ^ str_cps s
  | VBytes b -> "y" ^ hex_of_bytes b
  | VEnum (e, c) -> "e" ^ ocaml_string (enum_name e) ^ ":" ^ string_of_z c
  | VTurn c -> "t" ^ string_of_z c

let enum_of_name (n : ostring) : enum_id =
  match List.filter (fun e -> ocaml_string (enum_name e) = n) all_enums with
  | e :: _ -> e
  | [] -> failwith ("unknown enum " ^ n)

let pos_of_z = function Zpos p -> p | _ -> failwith "positive expected"
let value_of_string (s : ostring) : value =
  if s = "N" then VNone else
  let body = String.sub s 1 (String.length s - 1) in
  match s.[0] with
  | 'i' -> VInt (z_of_string body)
  | 'b' -> VBool (body = "1")
  | 'f' -> (match String.split_on_char '/' body with
            | [n; d] -> VFloat (z_of_string n, pos_of_z (z_of_string d))
            | _ -> failwith "bad float")
  | 's' -> VStr (cps_of_string body)
  | 'y' -> VBytes (bytes_of_hex (if body = "" then "-" else body))
  | 'e' -> (match String.split_on_char ':' body with
            | [n; c] -> VEnum (enum_of_name n, z_of_string c)
            | _ -> failwith "bad enum")
  | 't' -> VTurn (z_of_string body)
  | _ -> failwith ("bad value " ^ s)

let str_fields (c : cls) (vs : value list) : ostring =
  let names = List.map (fun f -> ocaml_string f.f_name) (fields_of c) in
  let rec zip a b = match a, b with x :: a', y :: b' -> (x ^ "=" ^ str_value y) :: zip a' b' | _, _ -> [] in
  String.concat ";" (zip names vs)
let str_msg ((c, vs) : cls * value list) : ostring = ocaml_string (class_name c) ^ " " ^ str_fields c vs

let kwargs_of_string (s : ostring) : (Extracted.string * value) list =
  if s = "-" then [] else
  List.map (fun kv -> match String.index_opt kv '=' with
      | Some i -> (coq_string (String.sub kv 0 i), value_of_string (String.sub kv (i + 1) (String.length kv - i - 1)))
      | None -> failwith "bad kwarg") (String.split_on_char ';' s)

let str_sval (v : sval) : ostring =
  match v with
  | SInt x -> "i" ^ string_of_z x
  | SBool b -> if b then "b1" else "b0"
  | SFrac (n, d) -> "f" ^ string_of_z n ^ "/" ^ string_of_z d
  | SText s -> "s" ^ str_cps s
  | SBytes b -> "y" ^ hex_of_bytes b
  | SEnum (e, c, d) -> "e" ^ ocaml_string (senum_name e) ^ ":" ^ string_of_z c ^ ":" ^ (if d then "1" else "0")
  | STurnMember c -> "t" ^ string_of_z c



let () = register "decode" (function
  | [bits] -> str_m str_msg (decode_bits (bits_of_string bits))
  | _ -> "ERROR bad arguments for decode")

let () = register "spec" (function
  | [bits] ->
    let b = bits_of_string bits in
    (match spec_variant b with
     | None -> "None"
     | Some v ->
       ocaml_string (variant_class v) ^ " " ^ string_of_int (int_of_nat (nominal v)) ^ " "
       ^ string_of_int (int_of_nat (disc_end v)) ^ " " ^ str_bool (text_pad_zero v b) ^ " "
       ^ String.concat ";" (List.map (fun (n, sv) -> ocaml_string n ^ "=" ^ str_sval sv) (spec_decode v b))
       ^ " " ^ String.concat ";" (List.map (fun f -> ocaml_string f.s_name ^ ":" ^ string_of_int (int_of_nat f.s_off)
                                              ^ ":" ^ string_of_int (int_of_nat f.s_width)) (spec_layout v)))
  | _ -> "ERROR bad arguments for spec")

let () = register "dearmor" (function
  | [hex; fill] ->
    str_m string_of_bits (decode_into_bit_array (bytes_of_hex hex) (z_of_string fill))
  | _ -> "ERROR bad arguments for dearmor")

let () = register "create" (function
  | [ty; kw] -> str_m str_msg (create_msg (z_of_string ty) (kwargs_of_string kw))
  | _ -> "ERROR bad arguments for create")

let () = register "encode" (function
  | [ty; kw] ->
    (match create_msg (z_of_string ty) (kwargs_of_string kw) with
     | Raise e -> "Raise " ^ str_exn e
     | Ok (c, vs) ->
       (match to_bitarray c vs with
        | Raise e -> "Raise " ^ str_exn e
        | Ok b ->
          (match encode_ascii_6 b with
           | Raise e -> "Raise " ^ str_exn e
           | Ok (payload, fill) ->
             "Ok " ^ ocaml_string (class_name c) ^ " " ^ string_of_bits b ^ " "
             ^ (if payload = [] then "-" else hex_of_bytes payload) ^ " " ^ string_of_int (int_of_nat fill)
             ^ " " ^ str_fields c vs)))
  | _ -> "ERROR bad arguments for encode")

let () = register "reencode" (function
  | [bits] ->
    (match decode_bits (bits_of_string bits) with
     | Raise e -> "Raise " ^ str_exn e
     | Ok (c, vs) ->
       (match to_bitarray c vs with
        | Raise e -> "Ok " ^ str_msg (c, vs) ^ " | Raise " ^ str_exn e
        | Ok b2 ->
          "Ok " ^ str_msg (c, vs) ^ " | " ^ string_of_bits b2 ^ " | " ^ str_m str_msg (decode_bits b2)))
  | _ -> "ERROR bad arguments for reencode")
