(* C20: communication state *)
open Extracted
open Drvlib

let () = register "comm" (function
  | [mt; radio] ->
    str_m str_dict (get_communication_state (z_of_string mt) (z_of_string radio))
  | _ -> "ERROR bad arguments for comm")

let () = register "classify" (function
  | [mt; radio] ->
    let mt = z_of_string mt and radio = z_of_string radio in
    str_bool (is_sotdma mt radio) ^ " " ^ str_bool (is_itdma mt radio) ^ " "
    ^ string_of_z (communication_state_raw mt radio)
  | _ -> "ERROR bad arguments for classify")

let () = register "commspec" (function
  | [mt; radio] ->
    let mt = z_of_string mt and radio = z_of_string radio in
    (match comm_spec mt radio with
     | None -> "None"
     | Some d ->
       (match spec_scheme mt radio with Some SOTDMA -> "SOTDMA " | Some ITDMA -> "ITDMA " | None -> "? ")
       ^ str_bool (utc_minute_comparable radio) ^ " " ^ str_dict d)
  | _ -> "ERROR bad arguments for commspec")

let () = register "c20" (function
  | [mt; radio] ->
    (* model result | classification | spec, in one round trip *)
    let mtz = z_of_string mt and rz = z_of_string radio in
    str_m str_dict (get_communication_state mtz rz) ^ "|"
    ^ str_bool (is_sotdma mtz rz) ^ " " ^ str_bool (is_itdma mtz rz) ^ " "
    ^ string_of_z (communication_state_raw mtz rz) ^ "|"
    ^ (match comm_spec mtz rz with
       | None -> "None"
       | Some d ->
         (match spec_scheme mtz rz with Some SOTDMA -> "SOTDMA " | Some ITDMA -> "ITDMA " | None -> "? ")
         ^ str_bool (utc_minute_comparable rz) ^ " " ^ str_dict d)
  | _ -> "ERROR bad arguments for c20")
