(* C04: the specification's carrier family (Spec/CarrierSpec.v), extracted.
   carrierchk <p hex> <fill> <seq|None> <k> { <chunk> <talker> <type> <channel> <checksum> <tag|None> <trailing> } x k  <sentence> ...
     -> 1 | 0      carrier_checkb p fill parts seq sentences   (byte strings as hex, "-" = empty)
   carriertext <n> <i> <seq|None> <fill> <chunk> <talker> <type> <channel> <checksum> <tag|None> <trailing>
     -> hex of sentence_text *)
open Extracted
open Drvlib

let opt_nat s = if s = "None" then None else Some (nat_of_int (int_of_string s))
let opt_bytes s = if s = "None" then None else Some (bytes_of_hex s)

let opts_of talker typ channel checksum tag trailing : carrier_opts =
  { o_talker = bytes_of_hex talker; o_type = bytes_of_hex typ; o_channel = bytes_of_hex channel;
    o_checksum = bytes_of_hex checksum; o_tagblock = opt_bytes tag; o_trailing = bytes_of_hex trailing }

let rec take_parts k l acc =
  if k = 0 then Some (List.rev acc, l) else
  match l with
  | chunk :: talker :: typ :: channel :: checksum :: tag :: trailing :: rest ->
    take_parts (k - 1) rest ((bytes_of_hex chunk, opts_of talker typ channel checksum tag trailing) :: acc)
  | _ -> None

let () = register "carrierchk" (function
  | p :: fill :: seq :: k :: rest ->
    (match take_parts (int_of_string k) rest [] with
     | Some (parts, ss) ->
       str_bool (carrier_checkb (bytes_of_hex p) (nat_of_int (int_of_string fill)) parts (opt_nat seq)
                   (List.map bytes_of_hex ss))
     | None -> "ERROR bad part list")
  | _ -> "ERROR bad arguments")

let () = register "carriertext" (function
  | [n; i; seq; fill; chunk; talker; typ; channel; checksum; tag; trailing] ->
    hex_or_dash (sentence_text (opts_of talker typ channel checksum tag trailing) (nat_of_int (int_of_string n))
                   (nat_of_int (int_of_string i)) (opt_nat seq) (bytes_of_hex chunk) (nat_of_int (int_of_string fill)))
  | _ -> "ERROR bad arguments")
