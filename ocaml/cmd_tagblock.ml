(* C16 / C17 / tag block part of C05: tag blocks and the tag block queue *)
open Extracted
open Drvlib

(* int() of non-ASCII text is not modelled: the oracle answers "ValueError" and records that it was asked, so that
   the harness can leave such cases out of the value comparison *)
let consulted = ref false
let uni (_ : z) (_ : z list) : z option = consulted := true; None
let flag () = let r = if !consulted then " oracle=1" else " oracle=0" in consulted := false; r

let str_group = function None -> "None" | Some ((n, t), g) -> string_of_z n ^ "," ^ string_of_z t ^ "," ^ string_of_z g
let str_tagblock (t : tagblock) : ostring =
  string_of_z t.tb_actual ^ " " ^ string_of_z t.tb_expected ^ " " ^ str_bool t.tb_valid ^ " "
  ^ (if t.tb_attrs = [] then "-" else
       String.concat ";" (List.map (fun (k, v) -> ocaml_string k ^ "=" ^ hex_or_dash v) t.tb_attrs))
  ^ " " ^ str_group t.tb_group

let parse_field (w : ostring) : Extracted.string * z list option =
  match String.index_opt w '=' with
  | None -> failwith ("bad field: " ^ w)
  | Some i ->
    let k = String.sub w 0 i and v = String.sub w (i + 1) (String.length w - i - 1) in
    (coq_string k, if v = "None" then None else Some (bytes_of_hex v))

let () = register "tbcodes" (function
  | [] -> String.concat "," (List.map (fun (k, c) -> ocaml_string k ^ "=" ^ hex_or_dash c) tb_field_codes)
  | _ -> "ERROR bad arguments for tbcodes")

let () = register "tbcreate" (fun ws -> str_m hex_or_dash (tb_create (List.map parse_field ws)))

let () = register "tbinit" (function
  | [raw] -> consulted := false; let r = str_m str_tagblock (tb_init uni (bytes_of_hex raw)) in r ^ flag ()
  | _ -> "ERROR bad arguments for tbinit")

let () = register "tbinit0" (function      (* the code before the repair *)
  | [raw] -> consulted := false; let r = str_m str_tagblock (tb_init_unrepaired uni (bytes_of_hex raw)) in r ^ flag ()
  | _ -> "ERROR bad arguments for tbinit0")

let () = register "tbpre" (function
  | [raw] -> str_m (fun (rest, tb) -> hex_or_dash rest ^ " " ^ str_opt hex_or_dash tb) (tb_pre_process (bytes_of_hex raw))
  | _ -> "ERROR bad arguments for tbpre")

let () = register "tbxor" (function
  | [raw] -> string_of_z (tbs_xor (bytes_of_hex raw))
  | _ -> "ERROR bad arguments for tbxor")

let () = register "tbvalue" (function
  | name :: ws -> str_opt hex_or_dash (tbs_value (List.map parse_field ws) (coq_string name))
  | _ -> "ERROR bad arguments for tbvalue")

(* the value is reported modulo 2^61-1 (the numbers of the 4300-digit boundary cases are too long to print) *)
let big_m = z_of_string "2305843009213693951"
let () = register "ptint" (function
  | [base; raw] -> consulted := false;
    let r = str_m (fun v -> string_of_z (snd (Z.div_eucl v big_m))) (pt_int uni (z_of_string base) (bytes_of_hex raw)) in
    r ^ flag ()
  | _ -> "ERROR bad arguments for ptint")

let str_parts l = String.concat "," (List.map hex_or_dash l)
let () = register "ptsplit" (function
  | [sep; mx; raw] ->
    let b = bytes_of_hex raw and sep = z_of_string sep in
    str_parts (if mx = "-" then pt_split sep b else pt_split_max sep (nat_of_int (int_of_string mx)) b)
  | _ -> "ERROR bad arguments for ptsplit")
let () = register "ptstrip" (function [raw] -> hex_or_dash (pt_strip (bytes_of_hex raw)) | _ -> "ERROR bad arguments")
let () = register "ptfind" (function
  | [c; raw] -> string_of_z (pt_find (z_of_string c) (bytes_of_hex raw)) | _ -> "ERROR bad arguments")
let () = register "ptutf8" (function [raw] -> str_bool (pt_utf8_valid (bytes_of_hex raw)) | _ -> "ERROR bad arguments")
let () = register "pthex" (function [n] -> hex_or_dash (pt_hex_upper (z_of_string n)) | _ -> "ERROR bad arguments")

(* ---- tag block queue ---- *)
(* a sentence as the queue sees it: only .tag_block matters; the position in the input is kept in c_fill_bits so that
   the reply can name sentences by position (the Python side identifies objects by identity) *)
let mk_sentence (idx : int) (tb : z list option) : sentence =
  let c = { c_raw = []; c_delimiter = []; c_talker_id = []; c_type = []; c_checksum = Z0; c_fill_bits = z_of_int idx;
            c_is_valid = true; c_data_fields = []; c_tag_block = tb } in
  SAis { a_common = c; a_frag_cnt = z_of_int 1; a_frag_num = z_of_int 1; a_seq_id = None; a_channel = [];
         a_payload = []; a_bits = []; a_ais_id = Z0; a_wrapper = None }
let idx_of (s : sentence) : ostring = string_of_z (sentence_common s).c_fill_bits
let str_lists (out : sentence list list) : ostring =
  if out = [] then "-" else String.concat "|" (List.map (fun l -> String.concat "," (List.map idx_of l)) out)
let parse_tb w = if w = "None" then None else Some (bytes_of_hex w)

(* tbqrun tb1 tb2 ...   (tb = hex of the tag block bytes, "-" for empty, "None" for no tag block)
   reply:  step;step;... groups=gid:tot:i,i/... oracle=b     step = lists put on the queue | "!Exception" *)
let () = register "tbqrun" (fun ws ->
  consulted := false;
  let ss = List.mapi (fun i w -> mk_sentence i (parse_tb w)) ws in
  let st = ref [] in
  let steps = List.map (fun s ->
      match tbq_put uni !st s with
      | Ok (st', out) -> st := st'; (str_lists out, out)
      | Raise e -> ("!" ^ str_exn e, [])) ss in
  (* the same through the run function the theorem is about *)
  let run = tbq_run uni ss in
  if List.map snd steps <> run then "ERROR tbq_run differs from folding tbq_put" else
  let groups = String.concat "/" (List.map (fun (gid, (tot, l)) ->
      string_of_z gid ^ ":" ^ string_of_z tot ^ ":" ^ String.concat "," (List.map idx_of l)) !st) in
  String.concat ";" (List.map fst steps) ^ " groups=" ^ (if groups = "" then "-" else groups) ^ flag ())

(* tbqspec g1 g2 ...   (g = "n,t,gid" or "None"): the specification on positions *)
let () = register "tbqspec" (fun ws ->
  let gs = Array.of_list (List.map (fun w ->
      if w = "None" then None else
        match String.split_on_char ',' w with
        | [n; t; g] -> Some ((z_of_string n, z_of_string t), z_of_string g)
        | _ -> failwith ("bad group: " ^ w)) ws) in
  let grp (i : int) = gs.(i) in
  let ss = List.init (Array.length gs) (fun i -> i) in
  let out = tbqs_groups grp ss in
  str_bool (tbqs_wf grp ss) ^ " "
  ^ String.concat ";" (List.map (fun o -> if o = [] then "-" else
        String.concat "|" (List.map (fun l -> String.concat "," (List.map string_of_int l)) o)) out))
