(* codec round trips: C02 C08 -- model chains and the Spec/RoundTripSpec.v oracles *)
open Extracted
open Drvlib
open Cmd_codec

let senum_of_name (n : ostring) : senum =
  match List.filter (fun e -> ocaml_string (senum_name e) = n)
          [SE_NavigationStatus; SE_ManeuverIndicator; SE_EpfdType; SE_ShipType; SE_NavAid; SE_StationType;
           SE_TransmitMode; SE_StationIntervals] with
  | e :: _ -> e
  | [] -> failwith ("unknown spec enum " ^ n)

(* same text format as codec values: iN b0/1 fN/D sC.C.C yHEX eName:code tN *)
let sval_of_string (s : ostring) : sval =
  let body = String.sub s 1 (String.length s - 1) in
  match s.[0] with
  | 'i' -> SInt (z_of_string body)
  | 'b' -> SBool (body = "1")
  | 'f' -> (match String.split_on_char '/' body with
            | [n; d] -> SFrac (z_of_string n, z_of_string d)
            | _ -> failwith "bad real")
  | 's' -> SText (cps_of_string body)
  | 'y' -> SBytes (bytes_of_hex (if body = "" then "-" else body))
  | 'e' -> (match String.split_on_char ':' body with
            | n :: c :: _ -> SEnum (senum_of_name n, z_of_string c, true)
            | _ -> failwith "bad enum")
  | 't' -> STurnMember (z_of_string body)
  | _ -> failwith ("bad spec value " ^ s)

let assignment_of_string (s : ostring) : (Extracted.string * sval) list =
  if s = "-" then [] else
  List.map (fun kv -> match String.index_opt kv '=' with
      | Some i -> (coq_string (String.sub kv 0 i), sval_of_string (String.sub kv (i + 1) (String.length kv - i - 1)))
      | None -> failwith "bad assignment") (String.split_on_char ';' s)

let variant_of_class (n : ostring) : variant =
  match List.filter (fun v -> ocaml_string (variant_class v) = n) all_variants with
  | v :: _ -> v
  | [] -> failwith ("unknown variant " ^ n)

let cls_of_name (n : ostring) : cls =
  match List.filter (fun c -> ocaml_string (class_name c) = n) all_classes with
  | c :: _ -> c
  | [] -> failwith ("unknown class " ^ n)

let kind_name = function
  | KU -> "U" | KB -> "B" | KU10 -> "U10" | KI10 -> "I10" | KF1 -> "F1" | KLL -> "LL" | KLL600 -> "LL600"
  | KROT -> "ROT" | KT -> "T" | KD -> "D" | KX -> "X" | KE _ -> "E"

let str_assign (f : 'a -> ostring) (l : (Extracted.string * 'a) list) : ostring =
  if l = [] then "-" else String.concat ";" (List.map (fun (k, x) -> ocaml_string k ^ "=" ^ f x) l)

(* rtspec <variant class> <assignment>
   -> <in_range> <short_data26><inherited_type><empty_varlen> <name=normalised;..> <name=kind:width:off;..>
      <name=tn/td/strict;..> <name=alt|alt|alt;..>   (tolerances of the scaled kinds; accepted values of rate of turn) *)
let () = register "rtspec" (function
  | [vn; a] ->
    let v = variant_of_class vn in
    let a = assignment_of_string a in
    let fld k = find_field k (spec_layout v) in
    let kinds = List.filter_map (fun (k, _) -> match fld k with
        | Some f -> Some (k, kind_name f.s_kind ^ ":" ^ string_of_int (int_of_nat f.s_width) ^ ":"
                             ^ string_of_int (int_of_nat f.s_off))
        | None -> None) a in
    let tols = List.filter_map (fun (k, _) -> match fld k with
        | Some f -> (match tolerance f.s_kind with
            | Some ((tn, td), st) -> Some (k, string_of_z tn ^ "/" ^ string_of_z td ^ "/" ^ str_bool st)
            | None -> None)
        | None -> None) a in
    let alts = List.filter_map (fun (k, x) -> match fld k with
        | Some f -> (match f.s_kind, real_of x with
            | KROT, Some (n, d) ->
              let c = rot_code n d in
              let one = z_of_int 1 in
              Some (k, String.concat "|" (List.map (fun c -> str_sval (spec_turn c))
                                           [Z.add c (Z.opp one); c; Z.add c one]))
            | _, _ -> None)
        | None -> None) a in
    str_bool (in_range v a) ^ " "
    ^ str_bool (c02_short_data26 v a) ^ str_bool (c02_inherited_type v a) ^ str_bool (c02_empty_varlen v a) ^ " "
    ^ str_assign str_sval (normalise v a) ^ " " ^ str_assign (fun s -> s) kinds ^ " "
    ^ str_assign (fun s -> s) tols ^ " " ^ str_assign (fun s -> s) alts
  | _ -> "ERROR bad arguments for rtspec")

(* within <strict> <tn> <td> <xn> <xd> <yn> <yd> : |y - x| within the tolerance, evaluated by the Spec *)
let () = register "within" (function
  | [st; tn; td; xn; xd; yn; yd] ->
    str_bool (within (st = "1") (z_of_string tn) (z_of_string td) (z_of_string xn) (z_of_string xd)
                (z_of_string yn) (z_of_string yd))
  | _ -> "ERROR bad arguments for within")

(* c02model <type id | class name> <kwargs>: create -> to_bitarray -> encode_ascii_6 -> decode_into_bit_array ->
   decode_bits.  A class name stands for  Class.create(kwargs)  (no dispatch), a number for
   MSG_CLASS[n].create(kwargs) as called by encode_dict.
   -> Ok <class> <bits> <payload hex> <fill> <created fields> | <decoded message or Raise> *)
let () = register "c02model" (function
  | [ty; kw] ->
    let kw = kwargs_of_string kw in
    let created =
      if String.length ty > 0 && ty.[0] = 'M' then
        (let c = cls_of_name ty in
         match create_cls c kw with Ok vs -> Ok (c, vs) | Raise e -> Raise e)
      else create_msg (z_of_string ty) kw in
    (match created with
     | Raise e -> "Raise " ^ str_exn e
     | Ok (c, vs) ->
       (match to_bitarray c vs with
        | Raise e -> "Raise " ^ str_exn e
        | Ok b ->
          (match encode_ascii_6 b with
           | Raise e -> "Raise " ^ str_exn e
           | Ok (payload, fill) ->
             let dec =
               if payload = [] then "Raise MissingPayloadException" else
               (match decode_into_bit_array payload (z_of_int (int_of_nat fill)) with
                | Raise e -> "Raise " ^ str_exn e
                | Ok b2 -> str_m str_msg (decode_bits b2)) in
             "Ok " ^ ocaml_string (class_name c) ^ " " ^ string_of_bits b ^ " " ^ hex_or_dash payload ^ " "
             ^ string_of_int (int_of_nat fill) ^ " " ^ (let s = str_fields c vs in if s = "" then "-" else s)
             ^ " | " ^ dec)))
  | _ -> "ERROR bad arguments for c02model")

(* c08spec <bits> -> <variant class> <length ok> <text pad zero> <raw unnormalised> <empty_text><pad_dropped> | None *)
let () = register "c08spec" (function
  | [bits] ->
    let b = bits_of_string bits in
    (match spec_variant b with
     | None -> "None"
     | Some v ->
       ocaml_string (variant_class v) ^ " " ^ str_bool (c08_length_ok v (nat_of_int (List.length b))) ^ " "
       ^ str_bool (text_pad_zero v b) ^ " " ^ str_bool (raw_unnormalised v b) ^ " "
       ^ str_bool (c08_empty_text v b) ^ str_bool (c08_pad_dropped v b))
  | _ -> "ERROR bad arguments for c08spec")

(* c08lengths <variant class> -> the lengths C08 quantifies over, ascending *)
let () = register "c08lengths" (function
  | [vn] ->
    let v = variant_of_class vn in
    let n = int_of_nat (nominal v) in
    let rec go i acc = if i < 0 then acc else go (i - 1) (if c08_length_ok v (nat_of_int i) then i :: acc else acc) in
    String.concat "," (List.map string_of_int (go n []))
  | _ -> "ERROR bad arguments for c08lengths")

(* armor <bits> -> payload hex, fill, and the bits the de-armoring gives back *)
let () = register "armor" (function
  | [bits] ->
    (match encode_ascii_6 (bits_of_string bits) with
     | Raise e -> "Raise " ^ str_exn e
     | Ok (payload, fill) ->
       "Ok " ^ hex_or_dash payload ^ " " ^ string_of_int (int_of_nat fill) ^ " "
       ^ str_m string_of_bits (decode_into_bit_array payload (z_of_int (int_of_nat fill))))
  | _ -> "ERROR bad arguments for armor")

(* rtlayout <variant class> -> <type id> <name:kind:off:width:varlen:enum:codes;..> <required,..> <disc name=sval;..> *)
let () = register "rtlayout" (function
  | [vn] ->
    let v = variant_of_class vn in
    let fld f =
      let (en, codes) = (match f.s_kind with
          | KE e -> (ocaml_string (senum_name e), String.concat "." (List.map string_of_z (senum_defined e)))
          | _ -> ("-", "-")) in
      ocaml_string f.s_name ^ ":" ^ kind_name f.s_kind ^ ":" ^ string_of_int (int_of_nat f.s_off) ^ ":"
      ^ string_of_int (int_of_nat f.s_width) ^ ":" ^ str_bool (var_len v f) ^ ":" ^ en ^ ":" ^ codes in
    string_of_z (type_id v) ^ " " ^ String.concat ";" (List.map fld (spec_layout v)) ^ " "
    ^ String.concat "," (List.map ocaml_string (required v)) ^ " " ^ str_assign str_sval (disc_values v)
  | _ -> "ERROR bad arguments for rtlayout")
