(* composition layer: the full public path  encode_msg / encode_dict -> decode( *sentences )  in the extracted model
   (Model/Frame.v encode_msg, encode_dict; Model/DecodeApi.v decode_api) -- the function C02_end_to_end is about.
   Values and kwargs travel in the syntax of cmd_codec.ml, strings as the hex text of their character codes. *)
open Extracted
open Drvlib
open Cmd_codec

let e2e_sentences (ss : z list list) : ostring =
  if ss = [] then "-" else String.concat "," (List.map hex_or_dash ss)

(* e2e <msg|dict|dicttype> <class name | type id> <talker> <channel> <kwargs>
     msg       encode_msg(<Class>.create( **kwargs ), talker, channel)
     dict      encode_dict(kwargs, talker, channel)                        (the type is found under `msg_type`)
     dicttype  encode_dict({'type': <type id>, **kwargs}, talker, channel)
   followed by decode( *sentences ):
   -> Ok <sentences> | Ok <Class> <fields>    or    Ok <sentences> | Raise <X>    or    Raise <X>  (create / encode raised) *)
let () = register "e2e" (function
  | [api; ty; t; c; kw] ->
    let kw = kwargs_of_string kw and t = bytes_of_hex t and c = bytes_of_hex c in
    let sentences =
      match api with
      | "msg" ->
        let cl = Cmd_codecrt.cls_of_name ty in
        (match create_cls cl kw with
         | Raise e -> Raise e
         | Ok vs -> encode_msg (cl, vs) t c)
      | "dict" -> encode_dict kw t c
      | "dicttype" -> encode_dict ((coq_string "type", VInt (z_of_string ty)) :: kw) t c
      | _ -> failwith "bad api" in
    (match sentences with
     | Raise e -> "Raise " ^ str_exn e
     | Ok ss ->
       "Ok " ^ e2e_sentences ss ^ " | "
       ^ (match decode_api false ss with
          | Raise e -> "Raise " ^ str_exn e
          | Ok (_, msg) -> "Ok " ^ str_msg msg))
  | _ -> "ERROR bad arguments for e2e")
