(* tracker: C12 C13 C14 C15.  Attribute values are opaque tokens (OCaml strings; the model is polymorphic in them).

   trk_run <ordered 0|1> <ttl N|int> <nattrs> [B=<rules>] <op>...
     B=   (optional) what the callbacks do, '+'-joined rules <cb>:<c|u|d>:<mmsi|*>:<exception class>: calling callback
          <cb> for that event with a track of that MMSI raises the exception (first matching rule; no rule: it returns)
     op:  U,<now>,<mmsi>,<ts|N>,<attrs>[,<order>]   attrs = '.'-joined: '-' absent, 'n' present-None, otherwise a token; '_' = none
          C,<now>[,<order>]     P,<mmsi>     A,<c|u|d>,<cb>     D,<c|u|d>,<cb>
          <order> = '+'-joined MMSIs ('_' = none): the iteration order of the set `to_be_deleted` of this operation's
                    cleanup() -- the MMSIs named come first, in this order (Model/Tracker.v trk_iter_by_hint)
          T,<ttl|N>  (tracker.ttl_in_seconds = ttl)     M  (tracker.stream_is_ordered = False)
          I,<now>,<mmsi>,<ts|N>,<attrs>   (tracker.insert_or_update(mmsi, msg_to_track(decoded, ts)): no ordering check, no cleanup)
          L,<n>  (query n_latest_tracks)     G,<mmsi>  (query get_track)
     reply: one item per op joined by '|':
          op:     E=<exn|->;C=<calls>;D=<deliveries>;R=<returned track|N>;O=<oldest|N>;K=<ttl|N>/<ordered 0|1>;T=<tracks>
          L:      L=<tracks>          G:  G=<track|N>
     The model run is Model/Tracker.v trkc_step (callbacks may raise); without B= and <order> it is the run of trk_step.
     track = mmsi/lu/attrs ('.'-joined, 'n' = None); calls = ','-joined ev~track; deliveries = ','-joined cb~ev~track
   trk_spec <ordered> <nattrs> <mmsis ','-joined> <sop>...      (C12: the log specification, expiry given)
     sop: U,<now>,<mmsi>,<ts|N>,<attrs>,<expired '+'-joined|_>   C,<now>,<expired>   P,<mmsi>   O   T,<ttl|N>   M
          I,<now>,<mmsi>,<ts|N>,<attrs>
     reply per step: R=<rejected 0|1>;<mmsi>=<lu/attrs|N>,...
   trk_spec_exact <ordered> <ttl> <nattrs> <mmsis> <sop without expired>...   (C12 + C13: expiry computed by the spec)
   trk_ttl <T> <now> <remaining '+'-joined|_> <removed|_>         -> 0|1
   trk_topn <n> <all m/lu ','-joined|_> <result|_>                -> <top-n 0|1> <newest first 0|1>
   trk_alive <mmsi> <trace ev~mmsi ','-joined|_>                  -> N|0|1
   trk_expected <target|N> <mmsi> <before 0|1> <after 0|1>        -> events as letters, '_' if none *)
open Extracted
open Drvlib

let split c s = if s = "_" || s = "" then [] else String.split_on_char c s
let optz s = if s = "N" then None else Some (z_of_string s)

let ev_of = function "c" -> CREATED | "u" -> UPDATED | "d" -> DELETED | s -> failwith ("bad event " ^ s)
let str_ev = function CREATED -> "c" | UPDATED -> "u" | DELETED -> "d"
let sev_of = function "c" -> SCreated | "u" -> SUpdated | "d" -> SDeleted | s -> failwith ("bad event " ^ s)
let str_sev = function SCreated -> "c" | SUpdated -> "u" | SDeleted -> "d"

let mattr_of s = if s = "-" then MAbsent else if s = "n" then MPresent None else MPresent (Some s)
let sattr_of s = if s = "-" || s = "n" then None else Some s
let str_attrs l = if l = [] then "_" else String.concat "." (List.map (function None -> "n" | Some t -> t) l)
let str_track tr = string_of_z tr.tr_mmsi ^ "/" ^ string_of_z tr.tr_lu ^ "/" ^ str_attrs tr.tr_attrs
let str_tracks l = if l = [] then "_" else String.concat "," (List.map str_track l)

type item = Op of ostring trk_op * z list | QLatest of z | QGet of z

let zplus s = List.map z_of_string (split '+' s)

let pyexn_of = function
  | "ValueError" -> ValueError | "UnicodeDecodeError" -> UnicodeDecodeError | "IndexError" -> IndexError
  | "TypeError" -> TypeError | "KeyError" -> KeyError | "OverflowError" -> OverflowError
  | "AttributeError" -> AttributeError | "ZeroDivisionError" -> ZeroDivisionError
  | s -> failwith ("exception class outside the model: " ^ s)

let rule_of (s : ostring) =
  match String.split_on_char ':' s with
  | [cb; ev; m; x] -> (((z_of_string cb, ev_of ev), (if m = "*" then None else Some (z_of_string m))), Py (pyexn_of x))
  | _ -> failwith ("bad rule " ^ s)

let item_of (s : ostring) : item =
  let upd now mmsi ts attrs =
    OpUpdate (z_of_string now, { m_mmsi = z_of_string mmsi; m_attrs = List.map mattr_of (split '.' attrs) }, optz ts) in
  match String.split_on_char ',' s with
  | ["U"; now; mmsi; ts; attrs] -> Op (upd now mmsi ts attrs, [])
  | ["U"; now; mmsi; ts; attrs; order] -> Op (upd now mmsi ts attrs, zplus order)
  | ["C"; now] -> Op (OpCleanup (z_of_string now), [])
  | ["C"; now; order] -> Op (OpCleanup (z_of_string now), zplus order)
  | ["P"; mmsi] -> Op (OpPop (z_of_string mmsi), [])
  | ["A"; ev; cb] -> Op (OpAttach (ev_of ev, z_of_string cb), [])
  | ["D"; ev; cb] -> Op (OpDetach (ev_of ev, z_of_string cb), [])
  | ["I"; now; mmsi; ts; attrs] ->
    Op (OpInsertOrUpdate (z_of_string now, { m_mmsi = z_of_string mmsi; m_attrs = List.map mattr_of (split '.' attrs) }, optz ts), [])
  | ["T"; ttl] -> Op (OpSetTtl (optz ttl), [])
  | ["M"] -> Op (OpUnordered, [])
  | ["L"; n] -> QLatest (z_of_string n)
  | ["G"; mmsi] -> QGet (z_of_string mmsi)
  | _ -> failwith ("bad op " ^ s)

let () = register "trk_run" (function
  | ordered :: ttl :: nattrs :: ops ->
    let na = nat_of_int (int_of_string nattrs) in
    let (rules, ops) = match ops with
      | b :: rest when String.length b >= 2 && String.sub b 0 2 = "B=" ->
        (List.map rule_of (split '+' (String.sub b 2 (String.length b - 2))), rest)
      | _ -> ([], ops) in
    let st = ref (trk_init (optz ttl) (ordered = "1")) in
    let out = List.map (fun s ->
      match item_of s with
      | Op (op, order) ->
        let before = !st in
        let res = trkc_step na (trk_env_of rules order) before op in
        st := res.rc_state;
        let calls = res.rc_calls in
        let dl = res.rc_deliv in
        "E=" ^ (match res.rc_exn with None -> "-" | Some e -> str_exn e)
        ^ ";C=" ^ (if calls = [] then "_" else String.concat "," (List.map (fun (e, tr) -> str_ev e ^ "~" ^ str_track tr) calls))
        ^ ";D=" ^ (if dl = [] then "_" else
                   String.concat "," (List.map (fun ((cb, e), tr) -> string_of_z cb ^ "~" ^ str_ev e ^ "~" ^ str_track tr) dl))
        ^ ";R=" ^ (match res.rc_ret with None -> "N" | Some tr -> str_track tr)
        ^ ";O=" ^ str_optz res.rc_state.t_oldest
        ^ ";K=" ^ (match res.rc_state.t_ttl with None -> "N" | Some t -> string_of_z t) ^ "/" ^ str_bool res.rc_state.t_ordered
        ^ ";T=" ^ str_tracks (trk_tracks res.rc_state)
      | QLatest n -> "L=" ^ str_tracks (trk_n_latest_tracks !st n)
      | QGet m -> "G=" ^ (match trk_get_track !st m with None -> "N" | Some tr -> str_track tr)) ops in
    String.concat "|" out
  | _ -> "ERROR bad arguments for trk_run")

(* ---- specification side ---- *)
let zlist c s = List.map z_of_string (split c s)

let sop_of (exact : bool) (s : ostring) : ostring sp_op * z list =
  match String.split_on_char ',' s with
  | "U" :: now :: mmsi :: ts :: attrs :: rest ->
    (SpUpdate (z_of_string now, z_of_string mmsi, List.map sattr_of (split '.' attrs), optz ts),
     (match rest with [e] when not exact -> zlist '+' e | [] when exact -> [] | _ -> failwith ("bad sop " ^ s)))
  | "C" :: now :: rest ->
    (SpCleanup (z_of_string now),
     (match rest with [e] when not exact -> zlist '+' e | [] when exact -> [] | _ -> failwith ("bad sop " ^ s)))
  | ["P"; mmsi] -> (SpPop (z_of_string mmsi), [])
  | ["O"] -> (SpOther, [])
  | ["I"; now; mmsi; ts; attrs] ->
    (SpInsert (z_of_string now, z_of_string mmsi, List.map sattr_of (split '.' attrs), optz ts), [])
  | ["T"; ttl] -> (SpSetTtl (optz ttl), [])
  | ["M"] -> (SpUnordered, [])
  | _ -> failwith ("bad sop " ^ s)

let str_sptrack = function
  | None -> "N"
  | Some t -> string_of_z t.sp_lu ^ "/" ^ str_attrs t.sp_attrs

let spec_reply ordered na mmsis log rejected =
  "R=" ^ str_bool rejected ^ ";"
  ^ String.concat "," (List.map (fun m -> string_of_z m ^ "=" ^ str_sptrack (sp_track_of na m log)) mmsis)

let is_rejected ordered log = function
  | SpUpdate (now, m, _, ts) -> sp_rejected ordered m (match ts with Some t -> t | None -> now) log
  | SpInsert (now, m, _, ts) -> sp_older (match ts with Some t -> t | None -> now) m log
  | _ -> false

let () = register "trk_spec" (function
  | ordered :: nattrs :: mmsis :: sops ->
    let ordered = ref (ordered = "1") and na = nat_of_int (int_of_string nattrs) and mmsis = zlist ',' mmsis in
    let log = ref [] in
    String.concat "|" (List.map (fun s ->
      let (op, expired) = sop_of false s in
      let rej = is_rejected !ordered !log op in
      log := sp_step !ordered !log op expired;
      ordered := sp_mode !ordered op;
      spec_reply !ordered na mmsis !log rej) sops)
  | _ -> "ERROR bad arguments for trk_spec")

let () = register "trk_spec_exact" (function
  | ordered :: ttl :: nattrs :: mmsis :: sops ->
    let ordered = ref (ordered = "1") and na = nat_of_int (int_of_string nattrs) and mmsis = zlist ',' mmsis in
    let ttl = ref (optz ttl) in
    let log = ref [] in
    String.concat "|" (List.map (fun s ->
      let (op, _) = sop_of true s in
      let rej = is_rejected !ordered !log op in
      log := sp_step_exact !ttl !ordered !log op;
      ordered := sp_mode !ordered op;
      ttl := sp_ttl_after !ttl op;
      spec_reply !ordered na mmsis !log rej) sops)
  | _ -> "ERROR bad arguments for trk_spec_exact")

let () = register "trk_ttl" (function
  | [t; now; remaining; removed] ->
    str_bool (sp_ttl_okb (z_of_string t) (z_of_string now) (zlist '+' remaining) (zlist '+' removed))
  | _ -> "ERROR bad arguments for trk_ttl")

let pairs s = List.map (fun p -> match String.split_on_char '/' p with
    | [m; lu] -> (z_of_string m, z_of_string lu) | _ -> failwith ("bad pair " ^ p)) (split ',' s)

let () = register "trk_topn" (function
  | [n; all; r] ->
    let all = pairs all and r = pairs r in
    str_bool (sp_top_nb (z_of_string n) all r) ^ " " ^ str_bool (sp_newest_firstb r)
  | _ -> "ERROR bad arguments for trk_topn")

let trace_of s = List.map (fun p -> match String.split_on_char '~' p with
    | [e; m] -> (sev_of e, z_of_string m) | _ -> failwith ("bad trace item " ^ p)) (split ',' s)

let () = register "trk_alive" (function
  | [m; trace] ->
    (match sp_alive (z_of_string m) (trace_of trace) with None -> "N" | Some b -> str_bool b)
  | _ -> "ERROR bad arguments for trk_alive")

let () = register "trk_expected" (function
  | [target; m; before; after] ->
    let es = sp_expected_events (optz target) (z_of_string m) (before = "1") (after = "1") in
    if es = [] then "_" else String.concat "" (List.map str_sev es)
  | _ -> "ERROR bad arguments for trk_expected")
