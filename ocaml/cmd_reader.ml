(* the composed readers: reader level of C05 (uses the text forms of cmd_assemble.ml).
     rdrun stream|queue <tbq 0|1> <hex line>...
        -> per line "=" ^ AIS deliveries (joined by ",") ^ ";" ^ sentence lists put on the tag block queue (each list: raws
           joined by "+", lists joined by ","), lines joined by "|", then " # Ok" or " # Raise <class>"
   The oracle for int() of non-ASCII digit text answers None and records that it was consulted (suffix " ?uni"): such
   cases are outside the correspondence (counted, never compared). *)
open Extracted
open Drvlib

let consulted = ref false
let uni (_ : z) (_ : z list) : z option = consulted := true; None

let raw_of_sentence (s : sentence) : ostring =
  match s with SAis a -> hex_or_dash a.a_common.c_raw | SGatehouse g -> hex_or_dash g.g_common.c_raw

let () = register "rdrun" (function
  | loop :: tbq :: lines ->
    consulted := false;
    let step = (match loop with "stream" -> stream_step | "queue" -> queue_step | _ -> failwith "loop?") in
    let (outs, fin) = rd_run uni step (tbq = "1") rd_init (List.map bytes_of_hex lines) in
    let one (ais, lists) =
      "=" ^ String.concat "," (List.map Cmd_assemble.str_delivered ais) ^ ";"
      ^ String.concat "," (List.map (fun l -> String.concat "+" (List.map raw_of_sentence l)) lists) in
    String.concat "|" (List.map one outs) ^ " # "
    ^ (match fin with Ok _ -> "Ok" | Raise e -> "Raise " ^ str_exn e)
    ^ (if !consulted then " ?uni" else "")
  | _ -> "ERROR bad arguments for rdrun")
