(* sentence parsing and the one-shot decode API: C05 C10 (also used by C04) *)
open Extracted
open Drvlib

let str_cps = Cmd_codec.str_cps

(* integers: decimal when small, (-)0x<hex> when large (drvlib's decimal conversion is quadratic) *)
let rec pos_bits (p : positive) (acc : bool list) : bool list =   (* least significant first *)
  match p with XH -> List.rev (true :: acc) | XO q -> pos_bits q (false :: acc) | XI q -> pos_bits q (true :: acc)
let hex_of_pos (p : positive) : ostring =
  let bits = Array.of_list (pos_bits p []) in
  let n = Array.length bits in
  let nd = (n + 3) / 4 in
  String.init nd (fun i ->
      let d = nd - 1 - i in
      let v = ref 0 in
      for k = 3 downto 0 do
        let j = 4 * d + k in
        v := 2 * !v + (if j < n && bits.(j) then 1 else 0)
      done;
      "0123456789abcdef".[!v])
let rec pos_size (p : positive) : int = match p with XH -> 1 | XO q | XI q -> 1 + pos_size q
let zs (x : z) : ostring =
  match x with
  | Z0 -> "0"
  | Zpos p -> if pos_size p <= 60 then string_of_int (int_of_pos p) else "0x" ^ hex_of_pos p
  | Zneg p -> if pos_size p <= 60 then string_of_int (- (int_of_pos p)) else "-0x" ^ hex_of_pos p
let str_optzs = function None -> "None" | Some v -> zs v
let str_fieldlist (l : z list list) : ostring =
  if l = [] then "-" else String.concat "," (List.map (fun f -> if f = [] then "" else hex_of_bytes f) l) ^ ","
let dash s = if s = "" then "-" else s

(* raw delimiter talker type checksum fill valid data_fields tag_block *)
let str_common (c : nmea_common) : ostring =
  String.concat " " [
    hex_or_dash c.c_raw; hex_or_dash c.c_delimiter; dash (str_cps c.c_talker_id); dash (str_cps c.c_type);
    zs c.c_checksum; zs c.c_fill_bits; str_bool c.c_is_valid; str_fieldlist c.c_data_fields;
    str_opt hex_or_dash c.c_tag_block ]

let str_ais (a : ais_sentence) : ostring =
  String.concat " " [
    "AIS"; str_common a.a_common; zs a.a_frag_cnt; zs a.a_frag_num; str_optzs a.a_seq_id;
    dash (str_cps a.a_channel); hex_or_dash a.a_payload; string_of_bits a.a_bits; zs a.a_ais_id ]

let str_ts (t : timestamp) : ostring =
  String.concat "/" (List.map zs [t.ts_year; t.ts_month; t.ts_day; t.ts_hour; t.ts_minute; t.ts_second; t.ts_micro])

let str_gh (g : gatehouse) : ostring =
  String.concat " " [
    "GH"; str_common g.g_common; str_ts g.g_timestamp; dash (str_cps g.g_country); dash (str_cps g.g_region);
    dash (str_cps g.g_pss); zs g.g_online_data ]

let str_sentence = function SAis a -> str_ais a | SGatehouse g -> str_gh g

let str_list (f : 'a -> ostring) (l : 'a list) : ostring = if l = [] then "-" else String.concat "," (List.map f l)

(* ---- primitives (micro-harness) ---- *)
let () = register "prim_split" (function
  | [sep; hex] -> str_fieldlist (bsplit (z_of_string sep) (bytes_of_hex hex))
  | _ -> "ERROR bad arguments")
let () = register "prim_splitmax" (function
  | [sep; n; hex] -> str_fieldlist (bsplit_max (z_of_string sep) (bytes_of_hex hex) (nat_of_int (int_of_string n)))
  | _ -> "ERROR bad arguments")
let () = register "prim_strip" (function
  | [hex] -> hex_or_dash (strip (bytes_of_hex hex))
  | _ -> "ERROR bad arguments")
let () = register "prim_find" (function
  | [needle; hex] -> string_of_z (bfind (z_of_string needle) (bytes_of_hex hex))
  | _ -> "ERROR bad arguments")
let optz_of_string s = if s = "None" then None else Some (z_of_string s)
let () = register "prim_slice" (function
  | [lo; hi; hex] -> hex_or_dash (py_slice (bytes_of_hex hex) (optz_of_string lo) (optz_of_string hi))
  | _ -> "ERROR bad arguments")
let () = register "prim_index" (function
  | [i; hex] -> str_m zs (py_index (bytes_of_hex hex) (z_of_string i))
  | _ -> "ERROR bad arguments")
let () = register "prim_upper" (function
  | [hex] -> hex_or_dash (bupper (bytes_of_hex hex))
  | _ -> "ERROR bad arguments")
let () = register "prim_ascii" (function
  | [hex] -> str_m (fun l -> dash (str_cps l)) (decode_ascii (bytes_of_hex hex))
  | _ -> "ERROR bad arguments")
let () = register "prim_unpack" (function
  | [n; sep; hex] ->
    let l = bsplit (z_of_string sep) (bytes_of_hex hex) in
    (match n with
     | "2" -> str_m (fun _ -> "ok") (unpack2 l)
     | "5" -> str_m (fun _ -> "ok") (unpack5 l)
     | "7" -> str_m (fun _ -> "ok") (unpack7 l)
     | _ -> "ERROR bad arity")
  | _ -> "ERROR bad arguments")
let () = register "prim_xor" (function
  | [hex] -> str_m zs (reduce_xor (bytes_of_hex hex))
  | _ -> "ERROR bad arguments")
let () = register "prim_int" (function
  | [base; hex] -> str_m zs (py_int_bytes (z_of_string base) (bytes_of_hex hex))
  | _ -> "ERROR bad arguments")
let () = register "prim_intstr" (function
  | [base; cps] -> str_m zs (py_int_str (z_of_string base) (Cmd_codec.cps_of_string (if cps = "-" then "" else cps)))
  | _ -> "ERROR bad arguments")
let () = register "prim_rshift" (function
  | [a; n] -> str_m zs (py_rshift (z_of_string a) (z_of_string n))
  | _ -> "ERROR bad arguments")
let () = register "prim_zfill" (function
  | [n; hex] -> str_m hex_or_dash (py_zfill (z_of_string n) (bytes_of_hex hex))
  | _ -> "ERROR bad arguments")
let () = register "prim_datetime" (function
  | [y; mo; d; h; mi; s; us] ->
    str_m (fun () -> "ok") (py_datetime_check (z_of_string y) (z_of_string mo) (z_of_string d) (z_of_string h)
                              (z_of_string mi) (z_of_string s) (z_of_string us))
  | _ -> "ERROR bad arguments")

(* ---- util.py ---- *)
let () = register "chk_to_int" (function
  | [hex] -> str_m (fun (f, c) -> zs f ^ " " ^ zs c) (chk_to_int (bytes_of_hex hex))
  | _ -> "ERROR bad arguments")
let () = register "compute_checksum" (function
  | [hex] -> str_m zs (compute_checksum (bytes_of_hex hex))
  | _ -> "ERROR bad arguments")
let () = register "nmea_checksum" (function
  | [hex] -> str_m zs (nmea_checksum (bytes_of_hex hex))
  | _ -> "ERROR bad arguments")

(* ---- the parser ---- *)
let () = register "produce" (function
  | [hex] -> str_m str_sentence (produce (bytes_of_hex hex))
  | _ -> "ERROR bad arguments")

(* ---- the one-shot API ---- *)
(* decodeapi <strict 0|1> <hex of part1> ... -> Ok <Class> <fields> | <assembled raw hex> <valid 0|1>   or   Raise <Name> *)
let () = register "decodeapi" (function
  | strict :: parts ->
    (match decode_api (strict = "1") (List.map bytes_of_hex parts) with
     | Raise e -> "Raise " ^ str_exn e
     | Ok (s, msg) ->
       "Ok " ^ Cmd_codec.str_msg msg ^ " | " ^ hex_or_dash s.a_common.c_raw ^ " " ^ str_bool s.a_common.c_is_valid)
  | _ -> "ERROR bad arguments")
(* the same with every attribute of the assembled sentence: Ok <sentence> | <Class> <fields> *)
let () = register "decodeapi_full" (function
  | strict :: parts ->
    (match decode_api (strict = "1") (List.map bytes_of_hex parts) with
     | Raise e -> "Raise " ^ str_exn e
     | Ok (s, msg) -> "Ok " ^ str_ais s ^ " | " ^ Cmd_codec.str_msg msg)
  | _ -> "ERROR bad arguments")
let () = register "assemble" (function
  | strict :: parts -> str_m str_ais (assemble_messages (strict = "1") (List.map bytes_of_hex parts))
  | _ -> "ERROR bad arguments")

(* ---- Spec/ChecksumSpec.v: the flag C10 demands for body / two checksum characters ---- *)
let () = register "c10spec" (function
  | [body; hh] ->
    (match bytes_of_hex hh with
     | [h1; h2] ->
       let b = bytes_of_hex body in
       str_bool (star_free b) ^ " " ^ string_of_z (xor_bytes b) ^ " "
       ^ (match demanded_flag b h1 h2 with None -> "None" | Some f -> str_bool f)
     | _ -> "ERROR two checksum characters expected")
  | _ -> "ERROR bad arguments")
let () = register "c10assembled" (function
  | [flags] -> str_bool (demanded_assembled (bits_of_string flags))
  | _ -> "ERROR bad arguments")
