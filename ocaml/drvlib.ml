(* Line-protocol driver around the extracted model and specification.
   One request per line on stdin:  <command> <arg> ...   One reply line per request on stdout.
   Integers travel as decimal text, bit strings as 0/1 text, byte strings as hex. *)
type ostring = string
open Extracted

(* ---- conversions between OCaml text and the extracted inductive types ---- *)
let rec pos_of_int (n : int) : positive =
  if n = 1 then XH else if n land 1 = 1 then XI (pos_of_int (n lsr 1)) else XO (pos_of_int (n lsr 1))
let z_of_int (n : int) : z = if n = 0 then Z0 else if n > 0 then Zpos (pos_of_int n) else Zneg (pos_of_int (-n))
let z10 = z_of_int 10
let z_of_string (s : ostring) : z =
  let neg = String.length s > 0 && s.[0] = '-' in
  let start = if neg then 1 else 0 in
  let acc = ref Z0 in
  for i = start to String.length s - 1 do
    let d = Char.code s.[i] - 48 in
    if d < 0 || d > 9 then failwith ("bad integer: " ^ s);
    acc := Z.add (Z.mul !acc z10) (z_of_int d)
  done;
  if neg then Z.opp !acc else !acc
let rec int_of_pos = function XH -> 1 | XO p -> 2 * int_of_pos p | XI p -> 2 * int_of_pos p + 1
let small_int_of_z = function Z0 -> 0 | Zpos p -> int_of_pos p | Zneg p -> - (int_of_pos p)
let string_of_z (x : z) : ostring =
  match x with
  | Z0 -> "0"
  | _ ->
    let neg = (match x with Zneg _ -> true | _ -> false) in
    let a = ref (if neg then Z.opp x else x) in
    let buf = Buffer.create 16 in
    while !a <> Z0 do
      let (q, r) = Z.div_eucl !a z10 in
      Buffer.add_char buf (Char.chr (48 + small_int_of_z r));
      a := q
    done;
    let s = Buffer.contents buf in
    let n = String.length s in
    let r = String.init n (fun i -> s.[n - 1 - i]) in
    if neg then "-" ^ r else r

let bool_of_bit c = (c = '1')
let ascii_of_char (c : char) : ascii =
  let n = Char.code c in
  let b i = (n lsr i) land 1 = 1 in
  Ascii (b 0, b 1, b 2, b 3, b 4, b 5, b 6, b 7)
let char_of_ascii (Ascii (b0, b1, b2, b3, b4, b5, b6, b7)) : char =
  let v b i = if b then 1 lsl i else 0 in
  Char.chr (v b0 0 + v b1 1 + v b2 2 + v b3 3 + v b4 4 + v b5 5 + v b6 6 + v b7 7)
let rec ocaml_string (s : Extracted.string) : ostring =
  match s with EmptyString -> "" | String (a, r) -> String.make 1 (char_of_ascii a) ^ ocaml_string r
let coq_string (s : ostring) : Extracted.string =
  let r = ref EmptyString in
  for i = String.length s - 1 downto 0 do r := String (ascii_of_char s.[i], !r) done; !r

let str_libexn = function
  | InvalidNMEAMessageException -> "InvalidNMEAMessageException" | InvalidNMEAChecksum -> "InvalidNMEAChecksum"
  | UnknownMessageException -> "UnknownMessageException"
  | MissingMultipartMessageException -> "MissingMultipartMessageException"
  | TooManyMessagesException -> "TooManyMessagesException" | UnknownPartNoException -> "UnknownPartNoException"
  | InvalidDataTypeException -> "InvalidDataTypeException"
  | NonPrintableCharacterException -> "NonPrintableCharacterException"
  | MissingPayloadException -> "MissingPayloadException"
  | TagBlockNotInitializedException -> "TagBlockNotInitializedException"
let str_pyexn = function
  | ValueError -> "ValueError" | UnicodeDecodeError -> "UnicodeDecodeError" | IndexError -> "IndexError"
  | TypeError -> "TypeError" | KeyError -> "KeyError" | OverflowError -> "OverflowError"
  | AttributeError -> "AttributeError" | ZeroDivisionError -> "ZeroDivisionError" | Unmodelled -> "Unmodelled"
let str_exn = function Lib e -> str_libexn e | Py e -> str_pyexn e

let str_optz = function None -> "None" | Some v -> string_of_z v
let str_dict (d : (Extracted.string * z option) list) : ostring =
  String.concat "," (List.map (fun (k, v) -> ocaml_string k ^ "=" ^ str_optz v) d)
let str_m (f : 'a -> ostring) (m : 'a m) : ostring =
  match m with Ok a -> "Ok " ^ f a | Raise e -> "Raise " ^ str_exn e
let str_bool b = if b then "1" else "0"


let rec int_of_nat = function O -> 0 | S n -> 1 + int_of_nat n
let rec nat_of_int (n : int) : nat = if n <= 0 then O else S (nat_of_int (n - 1))
let bits_of_string (s : ostring) : bool list =
  if s = "-" then [] else List.init (String.length s) (fun i -> s.[i] = '1')
let string_of_bits (b : bool list) : ostring =
  if b = [] then "-" else String.concat "" (List.map (fun x -> if x then "1" else "0") b)
let hex_of_bytes (l : z list) : ostring =
  String.concat "" (List.map (fun b -> Printf.sprintf "%02x" (small_int_of_z b)) l)
let hex_or_dash (l : z list) : ostring = if l = [] then "-" else hex_of_bytes l
let bytes_of_hex (s : ostring) : z list =
  if s = "-" then [] else
  List.init (String.length s / 2) (fun i -> z_of_int (int_of_string ("0x" ^ String.sub s (2 * i) 2)))
let str_opt (f : 'a -> ostring) = function None -> "None" | Some v -> f v

(* ---- command registry: each cmd_<layer>.ml registers its commands at module initialisation ---- *)
let commands : (ostring, ostring list -> ostring) Hashtbl.t = Hashtbl.create 64
let register (name : ostring) (f : ostring list -> ostring) : unit = Hashtbl.replace commands name f
