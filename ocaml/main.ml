(* Line-protocol driver around the extracted model and specification.
   One request per line on stdin:  <command> <arg> ...   One reply line per request on stdout.
   Integers travel as decimal text, bit strings as 0/1 text, byte strings as hex.
   Commands are registered by the cmd_<layer>.ml modules (linked before this one). *)
open Drvlib
let () =
  try
    while true do
      let line = input_line stdin in
      let words = List.filter (fun w -> w <> "") (String.split_on_char ' ' line) in
      let reply = (try (match words with
                        | [] -> "ERROR empty request"
                        | c :: args -> (match Hashtbl.find_opt commands c with
                                        | Some f -> f args
                                        | None -> "ERROR unknown command: " ^ c)) with
                   | Failure m -> "ERROR " ^ m
                   | Not_found -> "ERROR not_found"
                   | Stack_overflow -> "ERROR stack_overflow"
                   | Invalid_argument m -> "ERROR invalid_argument " ^ m) in
      print_string reply; print_newline ()
    done
  with End_of_file -> ()
