(* C19: filter chain.  One request describes a chain, a stream of decoded messages (or decode failures) and the
   distance values measured on the implementation's haversine; the reply carries the model's run of
   FilterChain(filters).filter(stream) and the conjunction-filter specification on the same messages.

   c19 <filters> <msgs> <dist>          each a ';'-separated list, '-' when empty
     filter :  N,attr,...  |  T,int,...  |  D,<lat>,<lon>,<km>  |  G,<lat_min>,<lon_min>,<lat_max>,<lon_max>  |  A,<pred>
     pred   :  c.0 | c.1 | nn.<name> | has.<name> | tr.<name> | lt.<name>.<rat> | te.<int>
     msg    :  <msg_type>,<name>=<read>,...     read:  N | r<rat> | o0 | o1 | x<ExceptionName>   or   E.<ExceptionName>
               (<read> = what evaluating msg.<name> does: a value, or -- for a computed attribute -- the exception raised)
     dist   :  <ref_lat>,<ref_lon>,<lat>,<lon>,<km>
     rat    :  <num>:<den>
   reply:  OUT <msgs> END <end|ExceptionName> | SPEC <msgs> | UTOTAL <0|1> | SHAPE <0|1>       (or  RAISE <ExceptionName> | ...)
           SHAPE = every decoded message of the stream satisfies the theorems' hypotheses coords_numeric and attr_reads_ok *)
open Extracted
open Drvlib

let split c s = if s = "-" || s = "" then [] else String.split_on_char c s

let pos_of_z = function Zpos p -> p | _ -> failwith "positive expected"
let rat_of_string (s : ostring) : ratio =
  match String.split_on_char ':' s with
  | [n; d] -> { ratio_num = z_of_string n; ratio_den = pos_of_z (z_of_string d) }
  | _ -> failwith ("bad rational " ^ s)
let str_rat (r : ratio) : ostring = string_of_z r.ratio_num ^ ":" ^ string_of_z (Zpos r.ratio_den)

let all_lib = [InvalidNMEAMessageException; InvalidNMEAChecksum; UnknownMessageException;
               MissingMultipartMessageException; TooManyMessagesException; UnknownPartNoException;
               InvalidDataTypeException; NonPrintableCharacterException; MissingPayloadException;
               TagBlockNotInitializedException]
let all_py = [ValueError; UnicodeDecodeError; IndexError; TypeError; KeyError; OverflowError; AttributeError;
              ZeroDivisionError; Unmodelled]
let exn_of_string (s : ostring) : exn =
  match List.filter (fun e -> str_libexn e = s) all_lib with
  | e :: _ -> Lib e
  | [] -> (match List.filter (fun e -> str_pyexn e = s) all_py with
           | e :: _ -> Py e
           | [] -> Py Unmodelled)

(* the outcome of reading one attribute *)
let read_of_string (s : ostring) : aval m =
  if s = "N" then Ok ANone
  else if s = "o1" then Ok (AOther true)
  else if s = "o0" then Ok (AOther false)
  else if String.length s > 1 && s.[0] = 'r' then Ok (ANum (rat_of_string (String.sub s 1 (String.length s - 1))))
  else if String.length s > 1 && s.[0] = 'x' then Raise (exn_of_string (String.sub s 1 (String.length s - 1)))
  else failwith ("bad attribute value " ^ s)
let str_aval = function ANone -> "N" | ANum r -> "r" ^ str_rat r | AOther true -> "o1" | AOther false -> "o0"
let str_read = function Ok v -> str_aval v | Raise e -> "x" ^ str_exn e

(* a stream element: a decoded message, or the exception its decode() raises *)
let item_of_string (s : ostring) : pymsg m =
  if String.length s > 2 && String.sub s 0 2 = "E." then Raise (exn_of_string (String.sub s 2 (String.length s - 2)))
  else match String.split_on_char ',' s with
    | t :: attrs ->
      Ok { pm_type = z_of_string t;
           pm_attrs = List.map (fun kv -> match String.index_opt kv '=' with
               | Some i -> (coq_string (String.sub kv 0 i),
                            read_of_string (String.sub kv (i + 1) (String.length kv - i - 1)))
               | None -> failwith ("bad attribute " ^ kv)) attrs }
    | [] -> failwith "empty message"
let str_msg (m : pymsg) : ostring =
  String.concat "," (string_of_z m.pm_type
                     :: List.map (fun (k, v) -> ocaml_string k ^ "=" ^ str_read v) m.pm_attrs)
let str_msgs (l : pymsg list) : ostring = if l = [] then "-" else String.concat ";" (List.map str_msg l)

let upred_of_string (s : ostring) : upred =
  match String.split_on_char '.' s with
  | ["c"; b] -> UConst (b = "1")
  | ["nn"; n] -> UNotNone (coq_string n)
  | ["has"; n] -> UHas (coq_string n)
  | ["tr"; n] -> UTruthy (coq_string n)
  | ["lt"; n; q] -> ULt (coq_string n, rat_of_string q)
  | ["te"; t] -> UTypeEq (z_of_string t)
  | _ -> failwith ("bad predicate " ^ s)

(* the filter object of the model and, built independently from the same text, the criterion of the spec *)
let filter_of_string (s : ostring) : filter_cfg * criterion * upred option =
  match String.split_on_char ',' s with
  | "N" :: attrs -> let a = List.map coq_string attrs in (NoneFilter a, CNotNone a, None)
  | "T" :: types -> let t = List.map z_of_string types in (MessageTypeFilter t, CTypeIn t, None)
  | ["D"; lat; lon; km] ->
    let r = (rat_of_string lat, rat_of_string lon) and d = rat_of_string km in
    (DistanceFilter (r, d), CWithin (r, d), None)
  | ["G"; a; b; c; d] ->
    let a = rat_of_string a and b = rat_of_string b and c = rat_of_string c and d = rat_of_string d in
    (GridFilter (a, b, c, d), CInGrid (a, b, c, d), None)
  | ["A"; p] ->
    let p = upred_of_string p in
    (AttributeFilter (upred_eval p),
     CPred (fun m -> match upred_eval p m with Ok true -> true | _ -> false),     (* "the predicate is true" *)
     Some p)
  | _ -> failwith ("bad filter " ^ s)

(* the distance function: the table of the implementation's own haversine values *)
let dist_of_string (s : ostring) : lat_lon -> lat_lon -> ratio =
  let tbl = Hashtbl.create 64 in
  List.iter (fun e -> match String.split_on_char ',' e with
      | [a; b; c; d; km] -> Hashtbl.replace tbl (a, b, c, d) (rat_of_string km)
      | _ -> failwith ("bad distance entry " ^ e)) (split ';' s);
  fun (a, b) (c, d) ->
    match Hashtbl.find_opt tbl (str_rat a, str_rat b, str_rat c, str_rat d) with
    | Some km -> km
    | None -> failwith ("no distance supplied for " ^ str_rat a ^ "," ^ str_rat b ^ "," ^ str_rat c ^ "," ^ str_rat d)

let is_ok = function Ok _ -> true | Raise _ -> false

let () = register "c19" (function
  | [filters; msgs; dist] ->
    let fs = List.map filter_of_string (split ';' filters) in
    let cfgs = List.map (fun (f, _, _) -> f) fs and crits = List.map (fun (_, c, _) -> c) fs in
    let items = List.map item_of_string (split ';' msgs) in
    let dist = dist_of_string dist in
    let model =
      match filter_chain_run dist cfgs (fun (x : pymsg m) -> x) items with
      | Raise e -> "RAISE " ^ str_exn e
      | Ok g -> "OUT " ^ str_msgs (mgen_yielded g) ^ " END "
                ^ (match mgen_end g with None -> "end" | Some e -> str_exn e) in
    let decoded = List.filter_map (function Ok m -> Some m | Raise _ -> None) items in
    let spec =
      if List.length decoded <> List.length items then "SPEC n/a"
      else "SPEC " ^ str_msgs (conj_filter dist crits decoded) in
    let utotal =
      List.for_all (fun (_, _, p) -> match p with
          | None -> true
          | Some p -> List.for_all (fun m -> is_ok (upred_eval p m)) decoded) fs in
    let shape = List.for_all (fun m -> coords_numeric m && attr_reads_ok m) decoded in
    model ^ " | " ^ spec ^ " | UTOTAL " ^ str_bool utotal ^ " | SHAPE " ^ str_bool shape
  | _ -> "ERROR bad arguments for c19")

(* one filter on one message:  c19keep <filter> <msg> <dist>  ->  Ok 0|1 / Raise E  |  spec 0|1 *)
let () = register "c19keep" (function
  | [filter; msg; dist] ->
    let (f, c, _) = filter_of_string filter in
    let dist = dist_of_string dist in
    (match item_of_string msg with
     | Raise _ -> "ERROR not a message"
     | Ok m -> str_m str_bool (filter_keep dist f m) ^ " | " ^ str_bool (crit_satisfies dist c m))
  | _ -> "ERROR bad arguments for c19keep")

(* the recorded witness of C19_nonefilter_unrepaired_raises, in the token syntax of c19:  c19witness  ->  <msg> *)
let () = register "c19witness" (function
  | _ -> str_msg filter_truncated_type18)
