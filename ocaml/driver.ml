(* Line-protocol driver around the extracted model and specification.
   One request per line on stdin:  <command> <arg> ...   One reply line per request on stdout.
   Integers travel as decimal text, bit strings as 0/1 text, byte strings as hex. *)
type ostring = string
open Extracted

(* ---- conversions between OCaml text and the extracted inductive types ---- *)
let rec pos_of_int (n : int) : positive =
  if n = 1 then XH else if n land 1 = 1 then XI (pos_of_int (n lsr 1)) else XO (pos_of_int (n lsr 1))
let z_of_int (n : int) : z = if n = 0 then Z0 else if n > 0 then Zpos (pos_of_int n) else Zneg (pos_of_int (-n))
let z10 = z_of_int 10
let z_of_string (s : ostring) : z =
  let neg = String.length s > 0 && s.[0] = '-' in
  let start = if neg then 1 else 0 in
  let acc = ref Z0 in
  for i = start to String.length s - 1 do
    let d = Char.code s.[i] - 48 in
    if d < 0 || d > 9 then failwith ("bad integer: " ^ s);
    acc := Z.add (Z.mul !acc z10) (z_of_int d)
  done;
  if neg then Z.opp !acc else !acc
let rec int_of_pos = function XH -> 1 | XO p -> 2 * int_of_pos p | XI p -> 2 * int_of_pos p + 1
let small_int_of_z = function Z0 -> 0 | Zpos p -> int_of_pos p | Zneg p -> - (int_of_pos p)
let string_of_z (x : z) : ostring =
  match x with
  | Z0 -> "0"
  | _ ->
    let neg = (match x with Zneg _ -> true | _ -> false) in
    let a = ref (if neg then Z.opp x else x) in
    let buf = Buffer.create 16 in
    while !a <> Z0 do
      let (q, r) = Z.div_eucl !a z10 in
      Buffer.add_char buf (Char.chr (48 + small_int_of_z r));
      a := q
    done;
    let s = Buffer.contents buf in
    let n = String.length s in
    let r = String.init n (fun i -> s.[n - 1 - i]) in
    if neg then "-" ^ r else r

let bool_of_bit c = (c = '1')
let ascii_of_char (c : char) : ascii =
  let n = Char.code c in
  let b i = (n lsr i) land 1 = 1 in
  Ascii (b 0, b 1, b 2, b 3, b 4, b 5, b 6, b 7)
let char_of_ascii (Ascii (b0, b1, b2, b3, b4, b5, b6, b7)) : char =
  let v b i = if b then 1 lsl i else 0 in
  Char.chr (v b0 0 + v b1 1 + v b2 2 + v b3 3 + v b4 4 + v b5 5 + v b6 6 + v b7 7)
let rec ocaml_string (s : Extracted.string) : ostring =
  match s with EmptyString -> "" | String (a, r) -> String.make 1 (char_of_ascii a) ^ ocaml_string r
let coq_string (s : ostring) : Extracted.string =
  let r = ref EmptyString in
  for i = String.length s - 1 downto 0 do r := String (ascii_of_char s.[i], !r) done; !r

let str_libexn = function
  | InvalidNMEAMessageException -> "InvalidNMEAMessageException" | InvalidNMEAChecksum -> "InvalidNMEAChecksum"
  | UnknownMessageException -> "UnknownMessageException"
  | MissingMultipartMessageException -> "MissingMultipartMessageException"
  | TooManyMessagesException -> "TooManyMessagesException" | UnknownPartNoException -> "UnknownPartNoException"
  | InvalidDataTypeException -> "InvalidDataTypeException"
  | NonPrintableCharacterException -> "NonPrintableCharacterException"
  | MissingPayloadException -> "MissingPayloadException"
  | TagBlockNotInitializedException -> "TagBlockNotInitializedException"
let str_pyexn = function
  | ValueError -> "ValueError" | UnicodeDecodeError -> "UnicodeDecodeError" | IndexError -> "IndexError"
  | TypeError -> "TypeError" | KeyError -> "KeyError" | OverflowError -> "OverflowError"
  | AttributeError -> "AttributeError" | ZeroDivisionError -> "ZeroDivisionError" | Unmodelled -> "Unmodelled"
let str_exn = function Lib e -> str_libexn e | Py e -> str_pyexn e

let str_optz = function None -> "None" | Some v -> string_of_z v
let str_dict (d : (Extracted.string * z option) list) : ostring =
  String.concat "," (List.map (fun (k, v) -> ocaml_string k ^ "=" ^ str_optz v) d)
let str_m (f : 'a -> ostring) (m : 'a m) : ostring =
  match m with Ok a -> "Ok " ^ f a | Raise e -> "Raise " ^ str_exn e
let str_bool b = if b then "1" else "0"

(* ---- codec values ---- *)
let bits_of_string (s : ostring) : bool list =
  if s = "-" then [] else List.init (String.length s) (fun i -> s.[i] = '1')
let string_of_bits (b : bool list) : ostring =
  if b = [] then "-" else String.concat "" (List.map (fun x -> if x then "1" else "0") b)
let hex_of_bytes (l : z list) : ostring =
  String.concat "" (List.map (fun b -> Printf.sprintf "%02x" (small_int_of_z b)) l)
let bytes_of_hex (s : ostring) : z list =
  if s = "-" then [] else
  List.init (String.length s / 2) (fun i -> z_of_int (int_of_string ("0x" ^ String.sub s (2 * i) 2)))
let str_cps (l : z list) : ostring = String.concat "." (List.map string_of_z l)
let cps_of_string (s : ostring) : z list =
  if s = "" then [] else List.map z_of_string (String.split_on_char '.' s)
let str_pos (p : positive) : ostring = string_of_z (Zpos p)

let str_value (v : value) : ostring =
  match v with
  | VNone -> "N"
  | VInt x -> "i" ^ string_of_z x
  | VBool b -> if b then "b1" else "b0"
  | VFloat (n, d) -> "f" ^ string_of_z n ^ "/" ^ str_pos d
  | VStr s -> "s" ^ str_cps s
  | VBytes b -> "y" ^ hex_of_bytes b
  | VEnum (e, c) -> "e" ^ ocaml_string (enum_name e) ^ ":" ^ string_of_z c
  | VTurn c -> "t" ^ string_of_z c

let enum_of_name (n : ostring) : enum_id =
  match List.filter (fun e -> ocaml_string (enum_name e) = n) all_enums with
  | e :: _ -> e
  | [] -> failwith ("unknown enum " ^ n)

let pos_of_z = function Zpos p -> p | _ -> failwith "positive expected"
let value_of_string (s : ostring) : value =
  if s = "N" then VNone else
  let body = String.sub s 1 (String.length s - 1) in
  match s.[0] with
  | 'i' -> VInt (z_of_string body)
  | 'b' -> VBool (body = "1")
  | 'f' -> (match String.split_on_char '/' body with
            | [n; d] -> VFloat (z_of_string n, pos_of_z (z_of_string d))
            | _ -> failwith "bad float")
  | 's' -> VStr (cps_of_string body)
  | 'y' -> VBytes (bytes_of_hex (if body = "" then "-" else body))
  | 'e' -> (match String.split_on_char ':' body with
            | [n; c] -> VEnum (enum_of_name n, z_of_string c)
            | _ -> failwith "bad enum")
  | 't' -> VTurn (z_of_string body)
  | _ -> failwith ("bad value " ^ s)

let str_fields (c : cls) (vs : value list) : ostring =
  let names = List.map (fun f -> ocaml_string f.f_name) (fields_of c) in
  let rec zip a b = match a, b with x :: a', y :: b' -> (x ^ "=" ^ str_value y) :: zip a' b' | _, _ -> [] in
  String.concat ";" (zip names vs)
let str_msg ((c, vs) : cls * value list) : ostring = ocaml_string (class_name c) ^ " " ^ str_fields c vs

let kwargs_of_string (s : ostring) : (Extracted.string * value) list =
  if s = "-" then [] else
  List.map (fun kv -> match String.index_opt kv '=' with
      | Some i -> (coq_string (String.sub kv 0 i), value_of_string (String.sub kv (i + 1) (String.length kv - i - 1)))
      | None -> failwith "bad kwarg") (String.split_on_char ';' s)

let str_sval (v : sval) : ostring =
  match v with
  | SInt x -> "i" ^ string_of_z x
  | SBool b -> if b then "b1" else "b0"
  | SFrac (n, d) -> "f" ^ string_of_z n ^ "/" ^ string_of_z d
  | SText s -> "s" ^ str_cps s
  | SBytes b -> "y" ^ hex_of_bytes b
  | SEnum (e, c, d) -> "e" ^ ocaml_string (senum_name e) ^ ":" ^ string_of_z c ^ ":" ^ (if d then "1" else "0")
  | STurnMember c -> "t" ^ string_of_z c

let rec int_of_nat = function O -> 0 | S n -> 1 + int_of_nat n

(* ---- commands ---- *)
let handle (words : ostring list) : ostring =
  match words with
  | ["comm"; mt; radio] ->
    str_m str_dict (get_communication_state (z_of_string mt) (z_of_string radio))
  | ["classify"; mt; radio] ->
    let mt = z_of_string mt and radio = z_of_string radio in
    str_bool (is_sotdma mt radio) ^ " " ^ str_bool (is_itdma mt radio) ^ " "
    ^ string_of_z (communication_state_raw mt radio)
  | ["commspec"; mt; radio] ->
    let mt = z_of_string mt and radio = z_of_string radio in
    (match comm_spec mt radio with
     | None -> "None"
     | Some d ->
       (match spec_scheme mt radio with Some SOTDMA -> "SOTDMA " | Some ITDMA -> "ITDMA " | None -> "? ")
       ^ str_bool (utc_minute_comparable radio) ^ " " ^ str_dict d)
  | ["decode"; bits] -> str_m str_msg (decode_bits (bits_of_string bits))
  | ["spec"; bits] ->
    let b = bits_of_string bits in
    (match spec_variant b with
     | None -> "None"
     | Some v ->
       ocaml_string (variant_class v) ^ " " ^ string_of_int (int_of_nat (nominal v)) ^ " "
       ^ string_of_int (int_of_nat (disc_end v)) ^ " " ^ str_bool (text_pad_zero v b) ^ " "
       ^ String.concat ";" (List.map (fun (n, sv) -> ocaml_string n ^ "=" ^ str_sval sv) (spec_decode v b))
       ^ " " ^ String.concat ";" (List.map (fun f -> ocaml_string f.s_name ^ ":" ^ string_of_int (int_of_nat f.s_off)
                                              ^ ":" ^ string_of_int (int_of_nat f.s_width)) (spec_layout v)))
  | ["dearmor"; hex; fill] ->
    str_m string_of_bits (decode_into_bit_array (bytes_of_hex hex) (z_of_string fill))
  | ["create"; ty; kw] -> str_m str_msg (create_msg (z_of_string ty) (kwargs_of_string kw))
  | ["encode"; ty; kw] ->
    (match create_msg (z_of_string ty) (kwargs_of_string kw) with
     | Raise e -> "Raise " ^ str_exn e
     | Ok (c, vs) ->
       (match to_bitarray c vs with
        | Raise e -> "Raise " ^ str_exn e
        | Ok b ->
          (match encode_ascii_6 b with
           | Raise e -> "Raise " ^ str_exn e
           | Ok (payload, fill) ->
             "Ok " ^ ocaml_string (class_name c) ^ " " ^ string_of_bits b ^ " "
             ^ (if payload = [] then "-" else hex_of_bytes payload) ^ " " ^ string_of_int (int_of_nat fill)
             ^ " " ^ str_fields c vs)))
  | ["reencode"; bits] ->
    (match decode_bits (bits_of_string bits) with
     | Raise e -> "Raise " ^ str_exn e
     | Ok (c, vs) ->
       (match to_bitarray c vs with
        | Raise e -> "Ok " ^ str_msg (c, vs) ^ " | Raise " ^ str_exn e
        | Ok b2 ->
          "Ok " ^ str_msg (c, vs) ^ " | " ^ string_of_bits b2 ^ " | " ^ str_m str_msg (decode_bits b2)))
  | ["c20"; mt; radio] ->
    (* model result | classification | spec, in one round trip *)
    let mtz = z_of_string mt and rz = z_of_string radio in
    str_m str_dict (get_communication_state mtz rz) ^ "|"
    ^ str_bool (is_sotdma mtz rz) ^ " " ^ str_bool (is_itdma mtz rz) ^ " "
    ^ string_of_z (communication_state_raw mtz rz) ^ "|"
    ^ (match comm_spec mtz rz with
       | None -> "None"
       | Some d ->
         (match spec_scheme mtz rz with Some SOTDMA -> "SOTDMA " | Some ITDMA -> "ITDMA " | None -> "? ")
         ^ str_bool (utc_minute_comparable rz) ^ " " ^ str_dict d)
  | _ -> "ERROR unknown command: " ^ String.concat " " words

let () =
  try
    while true do
      let line = input_line stdin in
      let words = List.filter (fun w -> w <> "") (String.split_on_char ' ' line) in
      let reply = (try handle words with
                   | Failure m -> "ERROR " ^ m
                   | Not_found -> "ERROR not_found"
                   | Stack_overflow -> "ERROR stack_overflow"
                   | Invalid_argument m -> "ERROR invalid_argument " ^ m) in
      print_string reply; print_newline ()
    done
  with End_of_file -> ()
