(* C06: SocketStream.read / Stream._iter_messages model, bytes.splitlines primitive, the spec's deciders.
   A list of byte strings travels as one hex word per element ("-" = empty byte string);
   replies: "<n> <hex> ... <hex>". *)
open Extracted
open Drvlib

let str_lines (ls : z list list) : ostring =
  String.concat " " (string_of_int (List.length ls) :: List.map hex_or_dash ls)

let () = register "splitlines" (function
  | [s] -> str_lines (splitlines (bytes_of_hex s))
  | _ -> "ERROR bad arguments for splitlines")

let () = register "endswith1" (function
  | [s; c] -> str_bool (endswith1 (bytes_of_hex s) (z_of_string c))
  | _ -> "ERROR bad arguments for endswith1")

(* sockread <chunk> ... : list(SocketStream.read()) *)
let () = register "sockread" (fun chunks -> str_lines (socket_read (List.map bytes_of_hex chunks)))

(* sockiter <chunk> ... : list(stream._iter_messages()) *)
let () = register "sockiter" (fun chunks -> str_lines (sock_iter_messages (List.map bytes_of_hex chunks)))

(* c06 <chunk> ... : read | iter | chunks_okb, one round trip *)
let () = register "c06" (fun chunks ->
  let cs = List.map bytes_of_hex chunks in
  str_lines (socket_read cs) ^ "|" ^ str_lines (sock_iter_messages cs) ^ "|" ^ str_bool (chunks_okb cs))

(* linesok <line> ... : Spec lines_okb *)
let () = register "linesok" (fun ls -> str_bool (lines_okb (List.map bytes_of_hex ls)))
